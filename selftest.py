#!/usr/bin/env python3
"""Determinism self-test of the simulator (./check selftest [runs-per-property]).

For every claimed property the same VERIF_SEED is executed in several separate worker processes
started with GOMAXPROCS 1, 4 and 16 in the environment (the worker pins itself to 1; this test
proves it), plain and - where the check uses it - race build. Each worker reports, per run, a hash
over its event log (reader events, scheduling decisions, transcript keys) and the tape length;
all reports for one (property, seed) must be identical. One more process per flavour starts half
way through the run indices: a run's event log must not depend on what its process ran before.
Exit 0 if so, 1 otherwise."""
import json, os, subprocess, sys
HOME=os.path.dirname(os.path.abspath(__file__))
BIN=os.path.join(HOME,'.build','sim'); RACE=os.path.join(HOME,'.build','sim-race')
YIELD=os.path.join(HOME,'.build','sim-yield'); YIELDRACE=os.path.join(HOME,'.build','sim-yield-race')
PROPS=['C01','C03','C09','C10','C12','C13','C14','C15','C16','C17','C20']
if os.environ.get('VERIF_SELFTEST_PROPS'): PROPS=os.environ['VERIF_SELFTEST_PROPS'].split(',')
RACEPROPS={'C12','C14','C20'}
def run(binp, prop, seed, n, gmp, start=0):
    env=dict(os.environ, GOMAXPROCS=str(gmp), VERIF_HOME=HOME)
    if binp in (RACE,YIELDRACE): env['GORACE']='halt_on_error=1 exitcode=66'
    p=subprocess.run([binp,'worker','-prop',prop,'-tier','quick','-seed',str(seed),'-start',str(start),'-stride','1','-maxruns',str(n-start),'-budget','100000','-evlog'],
                     stdout=subprocess.PIPE, stderr=subprocess.PIPE, text=True, env=env)
    for line in p.stdout.splitlines():
        try: m=json.loads(line)
        except Exception: continue
        if m.get('t')=='summary': return m.get('evh',{}), p.returncode
    return None, p.returncode
def main():
    n=int(sys.argv[1]) if len(sys.argv)>1 else 30
    seeds=[int(os.environ.get('VERIF_SEED','20261004')), 7]
    bad=0; total=0
    for prop in PROPS:
        nn = max(3, n//6) if prop=='C17' else n
        for seed in seeds:
            groups=[[('plain GOMAXPROCS=%d'%g, run(BIN,prop,seed,nn,g)) for g in (1,4,16,1)]]
            if prop in RACEPROPS and os.path.exists(RACE):
                # race builds are compared with each other: their event log leaves out the node-ID
                # counter, because sync.Pool drops items at random under the race detector
                groups.append([('race GOMAXPROCS=%d'%g, run(RACE,prop,seed,nn,g)) for g in (1,16)])
                if os.path.exists(YIELD):
                    # instrumented builds (a hand-off point before every statement) have their own schedules
                    groups.append([('instrumented GOMAXPROCS=%d'%g, run(YIELD,prop,seed,nn,g)) for g in (1,16,4)])
            # a run must not depend on the runs its process executed before it (a replay executes it
            # alone in a fresh process): one more process per flavour starts half way; the runs it
            # shares with the first one must have the same event logs
            late=[('plain, started at run %d'%(nn//2), BIN, 0)]
            if prop in RACEPROPS and os.path.exists(YIELD): late.append(('instrumented, started at run %d'%(nn//2), YIELD, len(groups)-1))
            ok=True; ref=None
            for name,binp,gi in late:
                evh,rc=run(binp,prop,seed,nn,1,nn//2)
                full=groups[gi][0][1][0] or {}
                diff=[k for k in (evh or {}) if full.get(k)!=evh[k]]
                if evh is None or len(evh)==0 or diff:
                    ok=False
                    print('MISMATCH %s seed %d: %s: runs %s differ from the same runs of a process that executed the earlier ones first (rc=%s)'%(prop,seed,name,diff[:8],rc))
            for reports in groups:
                gref=reports[0][1][0]
                if ref is None: ref=gref
                if gref is None or len(gref)==0: ok=False
                for name,(evh,rc) in reports[1:]:
                    if evh is None or evh!=gref:
                        ok=False
                        diff=[k for k in (gref or {}) if (evh or {}).get(k)!=gref[k]]
                        print('MISMATCH %s seed %d: %s differs in runs %s (rc=%s)'%(prop,seed,name,diff[:8],rc))
            reports=[r for g in groups for r in g]
            total+=len(ref or {})
            print('%s seed %d: %d runs x %d processes %s'%(prop,seed,len(ref or {}),len(reports),'identical' if ok else 'DIFFER'),flush=True)
            if not ok: bad+=1
    print('determinism self-test: %d run hashes compared across processes; %s'%(total,'OK' if not bad else '%d property/seed pairs differ'%bad))
    sys.exit(1 if bad else 0)
main()
