package run

import (
	"fmt"

	"github.com/jf-tech/omniparser/idr"
)

const auditNodeLimit = 2000000

// RootOf follows Parent links (bounded) to the root.
func RootOf(n *idr.Node) (*idr.Node, error) {
	seen := 0
	for n.Parent != nil {
		n = n.Parent
		seen++
		if seen > 100000 {
			return nil, fmt.Errorf("parent chain longer than 100000: cycle through Parent links")
		}
	}
	return n, nil
}

// AuditTree checks that parent/first/last/prev/next links under root are mutually
// consistent and acyclic, and that all IDs are distinct. It returns "" when sound.
func AuditTree(root *idr.Node) string {
	if root == nil {
		return "nil root"
	}
	if root.PrevSibling != nil || root.NextSibling != nil {
		// a detached root must not keep sibling links
		if root.Parent == nil {
			return fmt.Sprintf("root %q has sibling links but no parent", root.Data)
		}
	}
	seen := map[*idr.Node]bool{}
	ids := map[int64]*idr.Node{}
	count := 0
	var walk func(n *idr.Node, depth int) string
	walk = func(n *idr.Node, depth int) string {
		if seen[n] {
			return fmt.Sprintf("node %q (id %d) reachable twice: cycle or shared child", n.Data, n.ID)
		}
		seen[n] = true
		count++
		if count > auditNodeLimit {
			return "tree larger than audit limit"
		}
		if o, dup := ids[n.ID]; dup {
			return fmt.Sprintf("two live nodes share ID %d (%q and %q)", n.ID, o.Data, n.Data)
		}
		ids[n.ID] = n
		if (n.FirstChild == nil) != (n.LastChild == nil) {
			return fmt.Sprintf("node %q: FirstChild/LastChild nil-ness differs", n.Data)
		}
		if n.FirstChild != nil && n.FirstChild.PrevSibling != nil {
			return fmt.Sprintf("node %q: FirstChild has a PrevSibling", n.Data)
		}
		if n.LastChild != nil && n.LastChild.NextSibling != nil {
			return fmt.Sprintf("node %q: LastChild has a NextSibling", n.Data)
		}
		var prev *idr.Node
		for c := n.FirstChild; c != nil; c = c.NextSibling {
			if c.Parent != n {
				return fmt.Sprintf("child %q of %q has Parent %v", c.Data, n.Data, nodeName(c.Parent))
			}
			if c.PrevSibling != prev {
				return fmt.Sprintf("child %q of %q: PrevSibling is %v, expected %v", c.Data, n.Data, nodeName(c.PrevSibling), nodeName(prev))
			}
			if msg := walk(c, depth+1); msg != "" {
				return msg
			}
			prev = c
		}
		if prev != n.LastChild {
			return fmt.Sprintf("node %q: LastChild is %v but the sibling chain ends at %v", n.Data, nodeName(n.LastChild), nodeName(prev))
		}
		return ""
	}
	return walk(root, 0)
}

func nodeName(n *idr.Node) string {
	if n == nil {
		return "<nil>"
	}
	return fmt.Sprintf("%q(id %d)", n.Data, n.ID)
}

// AuditFrom audits the whole tree the record n lives in, and that n is listed by its parent.
func AuditFrom(n *idr.Node) string {
	root, err := RootOf(n)
	if err != nil {
		return err.Error()
	}
	if msg := AuditTree(root); msg != "" {
		return msg
	}
	if n.Parent != nil {
		found := false
		for c := n.Parent.FirstChild; c != nil; c = c.NextSibling {
			if c == n {
				found = true
				break
			}
		}
		if !found {
			return fmt.Sprintf("record %q is not among the children of its parent %q", n.Data, n.Parent.Data)
		}
	}
	return ""
}

// Reach returns the number of nodes reachable from n (root via Parent, then every
// descendant), and the same number ignoring text nodes that hang directly off proper
// ancestors of n.
func Reach(n *idr.Node) (all int, exAncestorText int) {
	root, err := RootOf(n)
	if err != nil {
		return -1, -1
	}
	anc := map[*idr.Node]bool{}
	for a := n.Parent; a != nil; a = a.Parent {
		anc[a] = true
	}
	var walk func(x *idr.Node)
	walk = func(x *idr.Node) {
		all++
		if !(x.Type == idr.TextNode && x.Parent != nil && anc[x.Parent]) {
			exAncestorText++
		}
		if all > auditNodeLimit {
			return
		}
		for c := x.FirstChild; c != nil; c = c.NextSibling {
			walk(c)
		}
	}
	walk(root)
	return all, exAncestorText
}
