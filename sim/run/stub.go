package run

import (
	"bytes"
	"encoding/json"
	"io"
	"runtime/debug"

	"github.com/jf-tech/go-corelib/ios"

	"github.com/jf-tech/omniparser/customfuncs"
	"github.com/jf-tech/omniparser/errs"
	v21cf "github.com/jf-tech/omniparser/extensions/omniv21/customfuncs"
	"github.com/jf-tech/omniparser/extensions/omniv21/fileformat"
	"github.com/jf-tech/omniparser/extensions/omniv21/fileformat/csv"
	"github.com/jf-tech/omniparser/extensions/omniv21/fileformat/edi"
	"github.com/jf-tech/omniparser/extensions/omniv21/fileformat/fixedlength"
	csv2 "github.com/jf-tech/omniparser/extensions/omniv21/fileformat/flatfile/csv"
	fixedlength2 "github.com/jf-tech/omniparser/extensions/omniv21/fileformat/flatfile/fixedlength"
	ffjson "github.com/jf-tech/omniparser/extensions/omniv21/fileformat/json"
	ffxml "github.com/jf-tech/omniparser/extensions/omniv21/fileformat/xml"
	"github.com/jf-tech/omniparser/extensions/omniv21/samples/customfileformats/jsonlog/jsonlogformat"
	"github.com/jf-tech/omniparser/extensions/omniv21/transform"
	"github.com/jf-tech/omniparser/header"
	"github.com/jf-tech/omniparser/idr"
	"github.com/jf-tech/omniparser/transformctx"

	"verif/sim/world"
)

// DriveStub is a harness re-implementation of the 12-line ingester.Read loop
// (extensions/omniv21/ingester.go) on top of the real, exported pieces (schema validation,
// format readers, ParseNode). Its only purpose is to let the per-record transform-result
// cache be switched off for a whole transform (hook VerifNewParseCtx); it is compared with
// itself (cache on vs. off), never with the real ingester.
func DriveStub(w *world.World, rd io.Reader, disableTransformCache bool, o Opts) (tr *Transcript) {
	tr = &Transcript{}
	defer func() {
		if r := recover(); r != nil {
			tr.Entries = append(tr.Entries, Entry{Class: ClsPanic, Err: SafeSprint(r), Stack: string(debug.Stack())})
		}
	}()
	var h header.Header
	if err := json.Unmarshal(w.Schema, &h); err != nil {
		tr.SchemaErr = err.Error()
		return tr
	}
	funcs := customfuncs.Merge(customfuncs.CommonCustomFuncs, v21cf.OmniV21CustomFuncs)
	decl, err := transform.ValidateTransformDeclarations(w.Schema, funcs, nil)
	if err != nil {
		tr.SchemaErr = err.Error()
		return tr
	}
	formats := []fileformat.FileFormat{
		csv.NewCSVFileFormat("sim-schema"), csv2.NewCSVFileFormat("sim-schema"), edi.NewEDIFileFormat("sim-schema"),
		fixedlength.NewFixedLengthFileFormat("sim-schema"), fixedlength2.NewFixedLengthFileFormat("sim-schema"),
		ffjson.NewJSONFileFormat("sim-schema"), ffxml.NewXMLFileFormat("sim-schema"),
		jsonlogformat.NewJSONLogFileFormat("sim-schema"),
	}
	var ff fileformat.FileFormat
	var rt interface{}
	for _, f := range formats {
		r, err := f.ValidateSchema(h.ParserSettings.FileFormatType, w.Schema, decl)
		if err == errs.ErrSchemaNotSupported {
			continue
		}
		if err != nil {
			tr.SchemaErr = err.Error()
			return tr
		}
		ff, rt = f, r
		break
	}
	if ff == nil {
		tr.SchemaErr = "schema not supported"
		return tr
	}
	br, err := ios.StripBOM(h.ParserSettings.WrapEncoding(rd))
	if err != nil {
		tr.TransformErr = err.Error()
		return tr
	}
	reader, err := ff.CreateFormatReader("sim-input", br, rt)
	if err != nil {
		tr.TransformErr = err.Error()
		return tr
	}
	ctx := &transformctx.Ctx{InputName: "sim-input", ExternalProperties: w.Ext, CtxAwareErr: reader}
	var cur *idr.Node
	max := o.MaxReads
	if max <= 0 {
		max = 2*len(w.Input) + 64
	}
	for i := 0; i < max; i++ {
		if cur != nil {
			reader.Release(cur)
			cur = nil
		}
		n, err := reader.Read()
		if n != nil {
			cur = n
		}
		var e Entry
		switch {
		case err == io.EOF:
			e = Entry{Class: ClsEOF, Err: err.Error()}
		case err != nil && reader.IsContinuableError(err):
			e = Entry{Class: ClsContinuable, Err: err.Error()}
		case err != nil:
			e = Entry{Class: ClsFatal, Err: err.Error()}
		default:
			res, perr := transform.VerifNewParseCtx(ctx, funcs, nil, disableTransformCache).ParseNode(n, decl)
			if perr != nil {
				e = Entry{Class: ClsContinuable, Err: reader.FmtErr("fail to transform. err: %s", perr.Error()).Error()}
			} else {
				b, merr := json.Marshal(res)
				if merr != nil {
					// (the library asks the reader whether an error is continuable, for this one as well)
					e = Entry{Class: ClsFatal, Err: merr.Error()}
					if reader.IsContinuableError(merr) {
						e.Class = ClsContinuable
					}
				} else {
					e = Entry{Class: ClsRecord, Out: string(b), RawJSON: idr.JSONify2(n)}
					e.Checksum, _ = customfuncs.UUIDv3(nil, e.RawJSON)
					if o.OnRecord != nil {
						o.OnRecord(i, n)
					}
				}
			}
		}
		tr.Entries = append(tr.Entries, e)
		if e.Terminal() {
			return tr
		}
	}
	tr.HitReadLimit = true
	return tr
}

var _ = bytes.NewReader
