package run

import (
	"fmt"
	"testing"

	"github.com/jf-tech/omniparser/idr"
	"verif/sim/simio"
)

func TestTmpU1(t *testing.T) {
	schema := `{"parser_settings": {"version": "omni.2.1", "file_format_type": "json"}, "transform_declarations": {"FINAL_OUTPUT": {"xpath": "/a/*", "object": {"x": {"xpath": "x"}}}}}`
	input := []byte(`{"a":[{"x":1,"y":2,"z":3},{"x":4}]}`)
	for off := 0; off < len(input); off++ {
		DefaultEnv().Apply()
		plan := simio.Whole(len(input))
		plan.Fault = simio.Fault{Kind: simio.FaultTransient, Off: off, Extra: len(input) - off}
		rd := simio.NewReader(input, plan)
		s, es, ps := NewSchema("s", []byte(schema))
		if s == nil {
			t.Fatal(es, ps)
		}
		tr, es, ps := NewTransform(s, "in", rd, nil)
		if tr == nil {
			fmt.Println(off, "no transform", es)
			continue
		}
		fr := FormatReaderOf(tr)
		var hist []string
		var others []*idr.Node
		for i := 0; i < 6; i++ {
			n, err := fr.Read()
			hist = append(hist, fmt.Sprintf("%v/%v", n != nil, err))
			pooled := idr.VerifDrainNodePool()
			for _, p := range pooled {
				if p.FirstChild != nil || p.Parent != nil {
					hist = append(hist, "POOLED-LINKED")
				}
			}
			idr.VerifRefillNodePool(pooled)
			for _, o := range others {
				if o.FirstChild != nil || o.Parent != nil || o.Data != "other" {
					hist = append(hist, "TAMPERED")
				}
			}
			for k := 0; k < 3; k++ {
				others = append(others, idr.CreateJSONNode(idr.ElementNode, "other", idr.JSONObj))
			}
			if n != nil {
				fr.Release(n)
			}
		}
		fmt.Println(off, len(hist), func() string { for _, h := range hist { if h == "TAMPERED" || h == "POOLED-LINKED" { return h } }; return "-" }())
	}
}
