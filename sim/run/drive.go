package run

import (
	"bytes"
	"encoding/json"
	"fmt"
	"io"
	"runtime/debug"
	"strings"
	"unicode/utf8"

	"github.com/jf-tech/omniparser"
	"github.com/jf-tech/omniparser/customfuncs"
	"github.com/jf-tech/omniparser/errs"
	"github.com/jf-tech/omniparser/extensions/omniv21"
	v21cf "github.com/jf-tech/omniparser/extensions/omniv21/customfuncs"
	"github.com/jf-tech/omniparser/extensions/omniv21/fileformat"
	"github.com/jf-tech/omniparser/extensions/omniv21/samples/customfileformats/jsonlog/jsonlogformat"
	"github.com/jf-tech/omniparser/idr"
	"github.com/jf-tech/omniparser/schemahandler"
	"github.com/jf-tech/omniparser/transformctx"

	"verif/sim/world"
)

// Result classes of one Read.
const (
	ClsRecord      = "record"
	ClsContinuable = "continuable"
	ClsEOF         = "eof"
	ClsFatal       = "fatal"
	ClsPanic       = "panic"
	ClsMalformed   = "malformed" // violates the (bytes, error) shape itself
)

// Entry is one Read result as observed through the public API.
type Entry struct {
	Class    string
	Out      string // transformed JSON bytes
	Err      string
	ErrVal   error `json:"-"`
	Checksum string
	RawJSON  string
	Audit    string // non-empty: structural problem found in the delivered tree
	Reach    int    // nodes reachable from the record (root via Parent, then descendants)
	ReachE   int    // same, ignoring text nodes hanging directly off proper ancestors
	Retained int    // Retained(transform) right after this record was delivered (0: not measured)
	Shape    string // why the result is malformed
	Stack    string // panic stack
	raw      []byte // the slice Read returned (to detect later modification)
}

func (e Entry) Terminal() bool {
	return e.Class == ClsEOF || e.Class == ClsFatal || e.Class == ClsPanic
}

// Key is what two executions of the same build must agree on.
func (e Entry) Key() string {
	return e.Class + "\x00" + e.Out + "\x00" + e.Err + "\x00" + e.Checksum + "\x00" + e.RawJSON
}

func (e Entry) Short() string {
	switch e.Class {
	case ClsRecord:
		return fmt.Sprintf("record %s checksum=%s", clip(e.Out, 160), e.Checksum)
	default:
		return fmt.Sprintf("%s: %s", e.Class, clip(e.Err, 200))
	}
}

func clip(s string, n int) string {
	if len(s) > n {
		return s[:n] + fmt.Sprintf("...(+%d)", len(s)-n)
	}
	return s
}

// Transcript is the observable behaviour of one transform.
type Transcript struct {
	SchemaErr      string
	SchemaPanic    string
	TransformErr   string
	TransformPanic string
	Entries        []Entry
	HitReadLimit   bool
}

func (t *Transcript) Keys() []string {
	out := make([]string, 0, len(t.Entries)+2)
	if t.SchemaErr != "" || t.SchemaPanic != "" {
		out = append(out, "schema:"+t.SchemaErr+t.SchemaPanic)
	}
	if t.TransformErr != "" || t.TransformPanic != "" {
		out = append(out, "newtransform:"+t.TransformErr+t.TransformPanic)
	}
	for _, e := range t.Entries {
		out = append(out, e.Key())
	}
	return out
}

// Describe renders a transcript for replay narratives.
func (t *Transcript) Describe(max int) []string {
	var out []string
	if t.SchemaErr != "" {
		out = append(out, "NewSchema error: "+clip(t.SchemaErr, 300))
	}
	if t.SchemaPanic != "" {
		out = append(out, "NewSchema PANIC: "+clip(t.SchemaPanic, 300))
	}
	if t.TransformErr != "" {
		out = append(out, "NewTransform error: "+clip(t.TransformErr, 300))
	}
	if t.TransformPanic != "" {
		out = append(out, "NewTransform PANIC: "+clip(t.TransformPanic, 300))
	}
	for i, e := range t.Entries {
		if i >= max {
			out = append(out, fmt.Sprintf("... %d more results", len(t.Entries)-max))
			break
		}
		out = append(out, fmt.Sprintf("Read#%d -> %s", i+1, e.Short()))
	}
	return out
}

// Opts controls Drive.
type Opts struct {
	MaxReads     int  // stop after this many Reads (0: 2*len(input)+64)
	Audit        bool // audit each delivered tree
	Measure      bool // measure reachable size
	// RetainedAt tells after which delivered records (1-based count of records) what the Transform
	// retains is measured (nil: never)
	RetainedAt func(delivered int) bool
	NoRaw        bool // skip RawRecord (C01 drives its own history)
	Exts         []omniparser.Extension
	Between      func() // called between API calls (scheduler hand-off)
	OnRecord     func(i int, n *idr.Node)
	InputName    string
	CustomParam  interface{} // transformctx.Ctx.CustomParam (the yield function for verif_probe)
	KeepOnlyLast int         // keep only the last N entries' payload (long runs); 0 keeps all
	// SchemaRd, when set, is the reader NewSchema gets the schema bytes from (a simulated reader
	// with its own delivery plan and faults) instead of a bytes.Reader.
	SchemaRd io.Reader
}

// SafeSprint formats a recovered panic value. The value can come from the system under test and
// be booby-trapped: a javascript exception whose text is produced by running script code that
// throws again. That must not take the harness down (it is the escaped panic that is reported).
func SafeSprint(r interface{}) (s string) {
	defer func() {
		if recover() != nil {
			s = fmt.Sprintf("panic value of type %T whose description panics as well", r)
		}
	}()
	return fmt.Sprint(r)
}

func recoverTo(dst *string, stack *string) {
	if r := recover(); r != nil {
		*dst = SafeSprint(r)
		if stack != nil {
			*stack = string(debug.Stack())
		}
	}
}

// NewSchema calls omniparser.NewSchema under recover.
func NewSchema(name string, content []byte, exts ...omniparser.Extension) (s omniparser.Schema, errStr, panicStr string) {
	return NewSchemaFrom(name, bytes.NewReader(content), exts...)
}

// NewSchemaFrom is NewSchema reading the schema from rd.
func NewSchemaFrom(name string, rd io.Reader, exts ...omniparser.Extension) (s omniparser.Schema, errStr, panicStr string) {
	defer recoverTo(&panicStr, nil)
	// the extension that carries the repository's sample custom file format comes last: schemas of
	// the built-in formats never get to it
	exts = append(append([]omniparser.Extension{}, exts...), JSONLogExtension(name))
	s, err := omniparser.NewSchema(name, rd, exts...)
	if err != nil {
		return nil, err.Error(), ""
	}
	return s, "", ""
}

// JSONLogExtension registers the sample custom file format "jsonlog" the way a caller does: one
// Extension value, made once, used for every NewSchema call of the process (also concurrent ones).
// The list of custom file formats is a slice with room to spare, as slices built with append are.
func JSONLogExtension(string) omniparser.Extension {
	return jsonLogExtension
}

var jsonLogExtension = omniparser.Extension{
	CreateSchemaHandler: omniv21.CreateSchemaHandler,
	CreateSchemaHandlerParams: &omniv21.CreateParams{
		CustomFileFormats: append(make([]fileformat.FileFormat, 0, 16), jsonlogformat.NewJSONLogFileFormat("sim-schema")),
	},
	CustomFuncs: customfuncs.Merge(customfuncs.CommonCustomFuncs, v21cf.OmniV21CustomFuncs),
}

// NewTransform calls Schema.NewTransform under recover.
func NewTransform(s omniparser.Schema, name string, rd io.Reader, ext map[string]string) (tr omniparser.Transform, errStr, panicStr string) {
	return NewTransformP(s, name, rd, ext, nil)
}

// NewTransformP is NewTransform with a CustomParam (handed to caller-registered custom funcs).
func NewTransformP(s omniparser.Schema, name string, rd io.Reader, ext map[string]string, param interface{}) (tr omniparser.Transform, errStr, panicStr string) {
	defer recoverTo(&panicStr, nil)
	tr, err := s.NewTransform(name, rd, &transformctx.Ctx{ExternalProperties: ext, CustomParam: param})
	if err != nil {
		return nil, err.Error(), ""
	}
	return tr, "", ""
}

// ReadOnce calls tr.Read under recover and classifies the result.
func ReadOnce(tr omniparser.Transform) (e Entry) {
	var b []byte
	var err error
	func() {
		defer func() {
			if r := recover(); r != nil {
				e.Class = ClsPanic
				e.Err = SafeSprint(r)
				e.Stack = string(debug.Stack())
			}
		}()
		b, err = tr.Read()
	}()
	if e.Class == ClsPanic {
		return e
	}
	e.ErrVal = err
	switch {
	case err == nil && b != nil:
		e.Class = ClsRecord
		e.Out = string(b)
		e.raw = b
		if !utf8.Valid(b) {
			e.Class, e.Shape = ClsMalformed, "record bytes are not valid UTF-8"
		} else if !json.Valid(b) {
			e.Class, e.Shape = ClsMalformed, "record bytes are not valid JSON"
		}
	case err == nil && b == nil:
		e.Class, e.Shape = ClsMalformed, "nil bytes with nil error"
	case err != nil && b != nil:
		e.Err = err.Error()
		e.Class, e.Shape = ClsMalformed, "non-nil bytes together with an error"
	case errs.IsErrTransformFailed(err):
		e.Class = ClsContinuable
		e.Err = err.Error()
	case err == io.EOF:
		e.Class = ClsEOF
		e.Err = err.Error()
	default:
		e.Class = ClsFatal
		e.Err = err.Error()
	}
	return e
}

// RawOnce calls tr.RawRecord under recover.
func RawOnce(tr omniparser.Transform) (rr schemahandler.RawRecord, err error, panicStr string) {
	defer recoverTo(&panicStr, nil)
	rr, err = tr.RawRecord()
	return rr, err, ""
}

// Drive runs the documented loop (Read until a terminal result; RawRecord after each record).
func Drive(w *world.World, rd io.Reader, o Opts) *Transcript {
	tr := &Transcript{}
	name := o.InputName
	if name == "" {
		name = "sim-input"
	}
	var srd io.Reader = bytes.NewReader(w.Schema)
	if o.SchemaRd != nil {
		srd = o.SchemaRd
	}
	schema, es, ps := NewSchemaFrom("sim-schema", srd, o.Exts...)
	tr.SchemaErr, tr.SchemaPanic = es, ps
	if schema == nil {
		return tr
	}
	if o.Between != nil {
		o.Between()
	}
	return DriveSchema(schema, w, rd, o, tr)
}

// Beat, when set (worker processes), is called every 1024 Reads of a drive: progress of the documented
// read loop is a sign of life for the orchestrator's hang watchdog (a thorough C17 run reads 200 000
// records; on a loaded machine that can take longer than the hang limit). A Read that does not
// return still stops the beats.
var Beat func()

// DriveSchema is Drive with an already created schema.
func DriveSchema(schema omniparser.Schema, w *world.World, rd io.Reader, o Opts, tr *Transcript) *Transcript {
	if tr == nil {
		tr = &Transcript{}
	}
	name := o.InputName
	if name == "" {
		name = "sim-input"
	}
	t, es, ps := NewTransformP(schema, name, rd, w.Ext, o.CustomParam)
	tr.TransformErr, tr.TransformPanic = es, ps
	if t == nil {
		return tr
	}
	max := o.MaxReads
	if max <= 0 {
		max = 2*len(w.Input) + 64
	}
	delivered := 0
	for i := 0; ; i++ {
		if i&1023 == 1023 && Beat != nil {
			Beat()
		}
		if i >= max {
			tr.HitReadLimit = true
			break
		}
		if o.Between != nil {
			o.Between()
		}
		e := ReadOnce(t)
		if e.Class == ClsRecord {
			delivered++
			if o.RetainedAt != nil && o.RetainedAt(delivered) {
				e.Retained = Retained(t)
			}
		}
		if e.Class == ClsRecord && !o.NoRaw {
			rr, err, p := RawOnce(t)
			switch {
			case p != "":
				e.Class, e.Shape = ClsMalformed, "RawRecord panicked: "+p
			case err != nil || rr == nil:
				e.Class, e.Shape = ClsMalformed, fmt.Sprintf("RawRecord after a successful Read returned (%v, %v)", rr, err)
			default:
				func() {
					defer func() {
						if r := recover(); r != nil {
							e.Class, e.Shape = ClsMalformed, fmt.Sprintf("inspecting raw record panicked: %v", r)
						}
					}()
					e.Checksum = rr.Checksum()
					if n, ok := rr.Raw().(*idr.Node); ok && n != nil {
						e.RawJSON = idr.JSONify2(n)
						if o.Audit {
							e.Audit = AuditFrom(n)
						}
						if o.Measure {
							e.Reach, e.ReachE = Reach(n)
						}
						if o.OnRecord != nil {
							o.OnRecord(i, n)
						}
					}
				}()
			}
		}
		tr.Entries = append(tr.Entries, e)
		if o.KeepOnlyLast > 0 && len(tr.Entries) > o.KeepOnlyLast {
			old := &tr.Entries[len(tr.Entries)-1-o.KeepOnlyLast]
			old.Out, old.RawJSON, old.Err, old.raw = "", "", "", nil
		}
		if e.Terminal() || e.Class == ClsMalformed {
			break
		}
	}
	CheckRetained(tr)
	return tr
}

// Intact reports whether the slice Read returned for this entry still holds what it held then.
func (e *Entry) Intact() bool {
	return e.raw == nil || e.Class != ClsRecord || string(e.raw) == e.Out
}

// CheckRetained verifies that the byte slices returned by earlier Reads still hold what they
// held when they were returned (a caller may keep them): a slice modified by a later Read is
// state leaking from one record into another.
func CheckRetained(tr *Transcript) {
	for i := range tr.Entries {
		e := &tr.Entries[i]
		if e.raw != nil && e.Class == ClsRecord && e.Out != "" && string(e.raw) != e.Out {
			e.Class = ClsMalformed
			e.Shape = fmt.Sprintf("the bytes returned by Read #%d were modified by a later Read: returned %s, now %s", i+1, clip(e.Out, 120), clip(string(e.raw), 120))
		}
		e.raw = nil
	}
}

// FirstDiff returns the index of the first differing key, or -1.
func FirstDiff(a, b []string) int {
	n := len(a)
	if len(b) < n {
		n = len(b)
	}
	for i := 0; i < n; i++ {
		if a[i] != b[i] {
			return i
		}
	}
	if len(a) != len(b) {
		return n
	}
	return -1
}

// ShowKey renders a transcript key for humans.
func ShowKey(keys []string, i int) string {
	if i < 0 || i >= len(keys) {
		return "(no result: transcript ended)"
	}
	parts := strings.Split(keys[i], "\x00")
	for j := range parts {
		parts[j] = clip(parts[j], 240)
	}
	return strings.Join(parts, " | ")
}
