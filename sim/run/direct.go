package run

import (
	"reflect"
	"unsafe"

	"github.com/jf-tech/omniparser"
	"github.com/jf-tech/omniparser/extensions/omniv21/fileformat"
)

var formatReaderType = reflect.TypeOf((*fileformat.FormatReader)(nil)).Elem()

// FormatReaderOf digs the format reader out of a Transform made by an 'omni.2.1' schema: the very
// object the library's ingester drives, sitting on the whole stack of input wrappers NewTransform has
// built (BOM stripping, charset decoding). It is found by type, not by field name: the first value
// that implements fileformat.FormatReader within four levels of fields below the Transform. A
// caller can get at the same object without reflection by registering a file format of its own that
// wraps a built-in one; going through the Transform keeps everything else exactly as the library
// sets it up. Returns nil when there is none (a transform of another schema handler).
func FormatReaderOf(t omniparser.Transform) fileformat.FormatReader {
	var found fileformat.FormatReader
	var walk func(v reflect.Value, depth int)
	walk = func(v reflect.Value, depth int) {
		if found != nil || !v.IsValid() || depth > 8 {
			return
		}
		switch v.Kind() {
		case reflect.Interface:
			if v.IsNil() {
				return
			}
			if v.Type() == formatReaderType {
				if v.CanInterface() {
					found = v.Interface().(fileformat.FormatReader)
				} else if v.CanAddr() {
					found = reflect.NewAt(v.Type(), unsafe.Pointer(v.UnsafeAddr())).Elem().Interface().(fileformat.FormatReader)
				}
				return
			}
			walk(v.Elem(), depth+1)
		case reflect.Ptr:
			if v.IsNil() {
				return
			}
			walk(v.Elem(), depth+1)
		case reflect.Struct:
			for i := 0; i < v.NumField(); i++ {
				f := v.Field(i)
				switch f.Kind() {
				case reflect.Interface, reflect.Ptr, reflect.Struct:
					walk(f, depth+1)
				}
			}
		}
	}
	walk(reflect.ValueOf(t), 0)
	return found
}
