package run

import (
	"reflect"
	"unsafe"
)

// Retained counts what is reachable from root through pointers, interfaces, maps and slices, by
// reflection (unexported fields included): one for every distinct object behind a pointer, one for
// every map entry and one for every element of a slice whose elements can themselves refer to
// something (pointers, interfaces, strings, structs, maps, slices). Slices of plain numbers or
// bytes are not counted and not entered: buffers legitimately grow to the size of the largest
// chunk or record seen. Functions, channels and unsafe pointers are not followed. The count is a
// measure of "what a Transform retains" that needs no knowledge of where the library keeps things.
func Retained(root interface{}) int {
	type key struct {
		p unsafe.Pointer
		t reflect.Type
		n int
	}
	seen := map[key]bool{}
	count := 0
	work := []reflect.Value{reflect.ValueOf(root)}
	for len(work) > 0 {
		v := work[len(work)-1]
		work = work[:len(work)-1]
		if !v.IsValid() {
			continue
		}
		switch v.Kind() {
		case reflect.Ptr:
			if v.IsNil() {
				continue
			}
			k := key{unsafe.Pointer(v.Pointer()), v.Type(), 0}
			if seen[k] {
				continue
			}
			seen[k] = true
			count++
			work = append(work, v.Elem())
		case reflect.Interface:
			if !v.IsNil() {
				work = append(work, v.Elem())
			}
		case reflect.Struct:
			for i := 0; i < v.NumField(); i++ {
				if refers(v.Field(i).Type()) {
					work = append(work, v.Field(i))
				}
			}
		case reflect.Map:
			if v.IsNil() {
				continue
			}
			k := key{unsafe.Pointer(v.Pointer()), v.Type(), 0}
			if seen[k] {
				continue
			}
			seen[k] = true
			count += v.Len()
			kr, er := refers(v.Type().Key()), refers(v.Type().Elem())
			if kr || er {
				it := v.MapRange()
				for it.Next() {
					if kr {
						work = append(work, it.Key())
					}
					if er {
						work = append(work, it.Value())
					}
				}
			}
		case reflect.Slice:
			if v.IsNil() || !countable(v.Type().Elem()) {
				continue
			}
			k := key{unsafe.Pointer(v.Pointer()), v.Type(), v.Len()}
			if seen[k] {
				continue
			}
			seen[k] = true
			count += v.Len()
			if refers(v.Type().Elem()) {
				for i := 0; i < v.Len(); i++ {
					work = append(work, v.Index(i))
				}
			}
		case reflect.Array:
			if refers(v.Type().Elem()) {
				for i := 0; i < v.Len(); i++ {
					work = append(work, v.Index(i))
				}
			}
		}
	}
	return count
}

// refers: a value of this type can lead to other objects.
func refers(t reflect.Type) bool {
	switch t.Kind() {
	case reflect.Ptr, reflect.Interface, reflect.Map, reflect.Slice:
		return true
	case reflect.Struct:
		for i := 0; i < t.NumField(); i++ {
			if refers(t.Field(i).Type) {
				return true
			}
		}
	case reflect.Array:
		return refers(t.Elem())
	}
	return false
}

// countable: elements of this type are things of their own (not plain numbers or bytes).
func countable(t reflect.Type) bool {
	return t.Kind() == reflect.String || refers(t)
}
