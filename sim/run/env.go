// Package run drives the real omniparser API inside the simulation and records transcripts.
package run

import (
	"fmt"
	"runtime"
	"runtime/debug"
	"sync/atomic"

	"github.com/google/uuid"
	"github.com/jf-tech/go-corelib/caches"

	"github.com/jf-tech/omniparser"
	"github.com/jf-tech/omniparser/customfuncs"
	"github.com/jf-tech/omniparser/extensions/omniv21"
	v21cf "github.com/jf-tech/omniparser/extensions/omniv21/customfuncs"
	"github.com/jf-tech/omniparser/extensions/omniv21/fileformat/edi"
	"github.com/jf-tech/omniparser/idr"
	"github.com/jf-tech/omniparser/transformctx"

	"verif/sim/tape"
)

// Env is the process-wide configuration a run starts from ("canonical condition" plus the
// per-run knobs the tape picks).
type Env struct {
	NodePool    bool  // idr node pooling on
	IDBase      int64 // node ID counter start
	JSCacheOff  bool  // javascript caches disabled
	XPathCap    int   // capacity of caches.XPathExprCache (0 = default 65536)
	RegexCap    int
	JSProgCap   int
	NodeJSONCap int
	EDIBuf      int    // edi.ReaderBufSize (0 = default 128)
	UUIDSeed    uint64 // seed of the uuid random source (declaration hashes)
	KeepGC      bool   // leave the garbage collector on during the run (long runs)
}

// DefaultEnv is everything enabled at defaults.
func DefaultEnv() Env {
	return Env{NodePool: true, UUIDSeed: 1}
}

func (e Env) String() string {
	return fmt.Sprintf("nodePool=%v idBase=%d jsCacheOff=%v xpathCap=%d regexCap=%d jsProgCap=%d nodeJSONCap=%d ediBuf=%d",
		e.NodePool, e.IDBase, e.JSCacheOff, e.XPathCap, e.RegexCap, e.JSProgCap, e.NodeJSONCap, e.EDIBuf)
}

var idBases = []int64{0, 1 << 20, (1 << 31) - 64, (1 << 53) - 4096, 0xfffffff0}

// DrawIDBase picks a node ID base.
func DrawIDBase(t *tape.Tape) int64 {
	return idBases[t.Weighted("env.idbase", 6, 2, 2, 1, 2)]
}

type seededReader struct{ s uint64 }

// Read is safe for concurrent use, as the random source the uuid package uses by default is: NewSchema
// (which draws uuids for its declaration hashes) may be called from several tasks.
func (r *seededReader) Read(p []byte) (int, error) {
	for i := range p {
		z := atomic.AddUint64(&r.s, 0x9e3779b97f4a7c15)
		z = (z ^ (z >> 30)) * 0xbf58476d1ce4e5b9
		z = (z ^ (z >> 27)) * 0x94d049bb133111eb
		z ^= z >> 31
		p[i] = byte(z)
	}
	return len(p), nil
}

func newCache(capacity int) *caches.LoadingCache {
	if capacity <= 0 {
		return caches.NewLoadingCache()
	}
	return caches.NewLoadingCache(capacity)
}

// Apply puts the process-wide state into the condition described by e.
func (e Env) Apply() {
	debug.SetGCPercent(100)
	idr.VerifSetNodeCaching(e.NodePool)
	idr.VerifSetNodeIDBase(e.IDBase)
	v21cf.VerifResetJSCaches()
	v21cf.VerifSetJSCachingDisabled(e.JSCacheOff)
	if e.JSProgCap > 0 {
		v21cf.JSProgramCache = newCache(e.JSProgCap)
	}
	if e.NodeJSONCap > 0 {
		v21cf.NodeToJSONCache = newCache(e.NodeJSONCap)
	}
	caches.XPathExprCache = newCache(e.XPathCap)
	caches.RegexCache = newCache(e.RegexCap)
	caches.TimeLocationCache = newCache(0)
	if e.EDIBuf > 0 {
		edi.ReaderBufSize = e.EDIBuf
	} else {
		edi.ReaderBufSize = 128
	}
	uuid.SetRand(&seededReader{s: e.UUIDSeed})
	runtime.GC()
	runtime.GC()
	if !e.KeepGC {
		debug.SetGCPercent(-1)
	}
}

// EmptyPools drops the contents of the node pool and the VM pool the way a garbage
// collection would (sync.Pool is cleared by two GC cycles).
func EmptyPools() {
	runtime.GC()
	runtime.GC()
}

// FlushCaches replaces the LRU caches by fresh ones of the same capacities.
func (e Env) FlushCaches() {
	caches.XPathExprCache = newCache(e.XPathCap)
	caches.RegexCache = newCache(e.RegexCap)
	if !e.JSCacheOff {
		v21cf.JSProgramCache = newCache(e.JSProgCap)
		v21cf.NodeToJSONCache = newCache(e.NodeJSONCap)
	}
}

// ProbeExtension is the default 'omni.2.1' extension plus the harness custom function
// verif_probe(s) = s, which calls the yield function found in Ctx.CustomParam: a scheduler
// hand-off point in the middle of a record's evaluation, reached through the seam
// Extension.CustomFuncs.
func ProbeExtension() omniparser.Extension {
	return omniparser.Extension{
		CreateSchemaHandler: omniv21.CreateSchemaHandler,
		CustomFuncs: customfuncs.Merge(customfuncs.CommonCustomFuncs, v21cf.OmniV21CustomFuncs, customfuncs.CustomFuncs{
			"verif_probe": func(ctx *transformctx.Ctx, s string) (string, error) {
				if y, ok := ctx.CustomParam.(func()); ok && y != nil {
					y()
				}
				return s, nil
			},
		}),
	}
}
