// Package world holds the (schema, input) pairs the simulation runs on: the repository's
// sample corpus and tape-driven generators per format.
package world

import (
	"fmt"
	"hash/fnv"
	"io/ioutil"
	"os"
	"path/filepath"
	"sort"
	"strings"

	"verif/sim/simio"
)

// World is one (schema, input) pair plus what the generator knows about it.
type World struct {
	Name   string
	Format string // csv, csv2, fixed-length, fixedlength2, edi, json, xml
	Schema []byte
	Input  []byte
	// Recs are the byte spans of the target records inside Input (generated worlds only).
	Recs []simio.RecSpan
	// RecTexts are the record texts Input was assembled from, Prefix/Suffix the non-target
	// context around them, Sep the separator emitted after each record (generated worlds only).
	Prefix, Suffix string
	Sep            string // emitted between two records (not after the last)
	RecTexts       []string
	// Logical records, their shape and the renderer (generated worlds only).
	Shape       Shape
	LRecs       []LRec
	Render      func(LRec) string
	CanDup      bool // Render honours LRec.Dup
	JSPoisonIdx int  // 1+index of the field whose value BoomValue makes a javascript declaration throw (0 = none)
	encLatin1   bool // Input is the Latin-1 encoding of the texts
	bom         bool // Input starts with a UTF-8 byte order mark
	Ext         map[string]string
	UsesJS      bool
	Generated   bool
	// Tags describe structural facts used by known-finding matchers and reach probes
	// (e.g. "envelope=header_footer", "encoding=iso-8859-1", "bom").
	Tags map[string]string
}

func (w *World) Tag(k string) string {
	if w.Tags == nil {
		return ""
	}
	return w.Tags[k]
}

func (w *World) SetTag(k, v string) {
	if w.Tags == nil {
		w.Tags = map[string]string{}
	}
	w.Tags[k] = v
}

// Clone returns a copy that can be modified freely.
func (w *World) Clone() *World {
	c := *w
	c.Tags = map[string]string{}
	for k, v := range w.Tags {
		c.Tags[k] = v
	}
	c.Schema = append([]byte(nil), w.Schema...)
	c.Input = append([]byte(nil), w.Input...)
	c.RecTexts = append([]string(nil), w.RecTexts...)
	c.Recs = append([]simio.RecSpan(nil), w.Recs...)
	return &c
}

// Hash identifies the world's content.
func (w *World) Hash() uint64 {
	h := fnv.New64a()
	h.Write(w.Schema)
	h.Write([]byte{0})
	h.Write(w.Input)
	return h.Sum64()
}

// Assemble builds Input and Recs from Prefix, RecTexts (joined by Sep) and Suffix, in the
// world's stream encoding.
func (w *World) Assemble() {
	enc := func(s string) []byte {
		if w.encLatin1 {
			return EncodeLatin1(s)
		}
		return []byte(s)
	}
	var out []byte
	if w.bom {
		out = append(out, 0xEF, 0xBB, 0xBF)
	}
	out = append(out, enc(w.Prefix)...)
	w.Recs = w.Recs[:0]
	for i, r := range w.RecTexts {
		if i > 0 {
			out = append(out, enc(w.Sep)...)
		}
		st := len(out)
		out = append(out, enc(r)...)
		w.Recs = append(w.Recs, simio.RecSpan{Start: st, End: len(out)})
	}
	out = append(out, enc(w.Suffix)...)
	w.Input = out
}

// WithRecs returns a copy of w whose input is assembled from the given record texts.
func (w *World) WithRecs(recs []string) *World {
	c := w.Clone()
	c.RecTexts = append([]string(nil), recs...)
	c.Recs = nil
	c.Assemble()
	return c
}

// RepoDir is where the repository under test lives.
func RepoDir() string {
	if d := os.Getenv("VERIF_REPO"); d != "" {
		return d
	}
	return "/repo"
}

var corpusFormats = map[string]string{
	"csv": "csv", "csv2": "csv2", "edi": "edi", "fixedlength": "fixed-length",
	"fixedlength2": "fixedlength2", "json": "json", "xml": "xml",
}

var corpusCache []*World

// Corpus loads the sample schema/input pairs of the repository (sorted by name).
func Corpus() ([]*World, error) {
	if corpusCache != nil {
		return corpusCache, nil
	}
	base := filepath.Join(RepoDir(), "extensions", "omniv21", "samples")
	var out []*World
	dirs := make([]string, 0, len(corpusFormats))
	for d := range corpusFormats {
		dirs = append(dirs, d)
	}
	sort.Strings(dirs)
	for _, d := range dirs {
		schemas, _ := filepath.Glob(filepath.Join(base, d, "*.schema.json"))
		sort.Strings(schemas)
		for _, sf := range schemas {
			stem := strings.TrimSuffix(filepath.Base(sf), ".schema.json")
			ins, _ := filepath.Glob(filepath.Join(base, d, stem+".input.*"))
			if len(ins) != 1 {
				continue
			}
			sb, err := ioutil.ReadFile(sf)
			if err != nil {
				return nil, err
			}
			ib, err := ioutil.ReadFile(ins[0])
			if err != nil {
				return nil, err
			}
			w := &World{
				Name:   "corpus:" + d + "/" + stem,
				Format: corpusFormats[d],
				Schema: sb,
				Input:  ib,
				UsesJS: strings.Contains(string(sb), "javascript"),
			}
			if strings.Contains(string(sb), "by_header_footer") || strings.Contains(string(sb), `"header"`) {
				w.SetTag("envelope", "header_footer")
			}
			out = append(out, w)
		}
	}
	if len(out) < 15 {
		return nil, fmt.Errorf("corpus: only %d sample pairs found under %s", len(out), base)
	}
	corpusCache = out
	return out, nil
}
