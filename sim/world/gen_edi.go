package world

import (
	"fmt"
	"strings"

	"verif/sim/tape"
)

func init() {
	registerGen("edi", genEDI)
}

func genEDI(t *tape.Tape, o GenOpts) *World {
	w, sh, enc, bom := newGenWorld(t, "edi", o, true)
	fn := fieldNames("F", sh.NFields)
	gn := fieldNames("G", sh.NItemFields)
	segDelim := t.Pick("edi.seg", "~", "\n", "'", "~\n", "|-|")
	elemDelim := t.Pick("edi.elem", "*", "+", "^^")
	fd := D{"segment_delimiter": segDelim, "element_delimiter": elemDelim}
	release := ""
	if t.Bool("edi.release") {
		release = "?"
		fd["release_character"] = release
	}
	comp := ""
	if t.Bool("edi.comp") {
		comp = ":"
		fd["component_delimiter"] = comp
	}
	ignoreCRLF := false
	trailingNL := ""
	if segDelim == "~" || segDelim == "'" {
		if t.Bool("edi.ignorecrlf") {
			ignoreCRLF = true
			fd["ignore_crlf"] = true
			trailingNL = t.Pick("edi.nl", "\n", "\r\n")
		}
	}
	crBeforeLF := segDelim == "\n" && t.Bool("edi.crlf")
	esc := func(v string) string {
		// values must not contain unescaped delimiters; with a release character they may:
		// a '.' in the logical value stands for the element delimiter, '_' for the release character
		v = strings.ReplaceAll(v, "\n", " ")
		if release != "" && len(elemDelim) == 1 {
			v = strings.ReplaceAll(v, ".", elemDelim)
			v = strings.ReplaceAll(v, "_", release)
		}
		specials := []string{segDelim, elemDelim}
		if comp != "" {
			specials = append(specials, comp)
		}
		if release != "" {
			v = strings.ReplaceAll(v, release, release+release)
			for _, s := range specials {
				if s == "\n" || s == "~\n" || len(s) > 1 {
					v = strings.ReplaceAll(v, s, "")
					continue
				}
				v = strings.ReplaceAll(v, s, release+s)
			}
			return v
		}
		for _, s := range specials {
			v = strings.ReplaceAll(v, s, "")
		}
		for _, c := range []string{"~", "*", "+", "^", "'", "|", ":", "?"} {
			v = strings.ReplaceAll(v, c, "")
		}
		return v
	}
	seg := func(name string, vals []string) string {
		parts := []string{name}
		for _, v := range vals {
			parts = append(parts, esc(v))
		}
		s := strings.Join(parts, elemDelim)
		if crBeforeLF {
			return s + "\r" + segDelim
		}
		return s + segDelim + trailingNL
	}
	elems := func(names []string, compIdx int) []interface{} {
		out := make([]interface{}, len(names))
		for i, n := range names {
			d := D{"name": n, "index": i + 1}
			if comp != "" && i == compIdx {
				d["component_index"] = 1
			}
			out[i] = d
		}
		return out
	}
	m := Model{Fields: fn, IntField: fn[sh.IntIdx]}
	if !o.OwnDataOnly {
		m.Ctx = []string{"../h0"}
	}
	rec := D{"name": "R", "is_target": true, "min": 0, "max": -1, "elements": elems(fn, 0)}
	// a segment declared "not used" (max 0) in front of the items, the way implementation guides list
	// segments a partner does not send; some records carry one all the same
	unused, unusedStartsGroup := false, false
	if sh.NItemFields > 0 {
		child := D{"name": "D", "min": 0, "max": -1, "elements": elems(gn, -1)}
		unused = t.Chance("edi.unused-segment", 1, 3)
		kids := []interface{}{child}
		if unused {
			kids = []interface{}{D{"name": "NTE", "min": 0, "max": 0}, child}
			w.SetTag("edi.segment-declared-with-max-0", "1")
		}
		if t.Bool("edi.childgroup") {
			unusedStartsGroup = unused
			grp := D{"name": "LOOP", "type": "segment_group", "min": 0, "max": -1, "child_segments": kids}
			kids = []interface{}{grp}
			m.Item = &ItemModel{XPath: "LOOP/D", Fields: gn, IntField: gn[sh.ItemIntIdx]}
		} else {
			m.Item = &ItemModel{XPath: "D", Fields: gn, IntField: gn[sh.ItemIntIdx]}
		}
		rec["child_segments"] = kids
	}
	isa := D{"name": "ISA", "elements": []interface{}{D{"name": "h0", "index": 1}},
		"child_segments": []interface{}{rec, D{"name": "IEA", "elements": []interface{}{D{"name": "cnt", "index": 1, "default": "0"}}}}}
	fd["segment_declarations"] = []interface{}{isa}
	decls, js, ext := GenDecls(t, m, declOptsOf(o))
	addPoisonable(decls, m.IntField)
	addJSPoisonable(t, w, decls, o, fn)
	addAncestorJS(w, decls, o)
	if x := flatTarget(sh); x != "" {
		decls["FINAL_OUTPUT"].(D)["xpath"] = x
	}
	longSeg := t.Chance("edi.long", 1, 4)
	if longSeg {
		w.SetTag("edi.long-seg", "1")
	}
	useComp := comp != ""
	w.Render = func(r LRec) string {
		vals := append([]string{}, r.Vals...)
		var sb strings.Builder
		parts := []string{"R"}
		for i, v := range vals {
			e := esc(v)
			if i == 0 && useComp {
				e = e + comp + "c2"
			}
			parts = append(parts, e)
		}
		if longSeg {
			// an extra, undeclared trailing element makes the segment outgrow the scanner buffer
			parts = append(parts, strings.Repeat("L", 150))
		}
		s := strings.Join(parts, elemDelim)
		if crBeforeLF {
			sb.WriteString(s + "\r" + segDelim)
		} else {
			sb.WriteString(s + segDelim + trailingNL)
		}
		if unused && (r.Short > 0 || (unusedStartsGroup && len(r.Items) > 0)) {
			// (a segment group is recognised by its first child: where the unused segment is the first
			// child of the items' group it has to be there for the items to be read)
			sb.WriteString(seg("NTE", []string{"n"}))
		}
		for _, it := range r.Items {
			sb.WriteString(seg("D", it))
		}
		return sb.String()
	}
	w.Prefix = seg("ISA", []string{Text(t, sh.Charset, 6)})
	w.Suffix = seg("IEA", []string{"1"})
	if t.Chance("edi.trailing-blank", 1, 4) && !ignoreCRLF && segDelim != "\n" && segDelim != "~\n" {
		w.Suffix += "\n\n"
	}
	drawRecs(t, w, sh, o)
	if unused {
		for i := range w.LRecs {
			if t.Chance("edi.unused-segment.present", 1, 3) {
				w.LRecs[i].Short = 1
				w.RecTexts[i] = w.Render(w.LRecs[i])
			}
		}
	}
	_ = ignoreCRLF
	if MaybeScalarOutput(t, decls, m, o) {
		w.SetTag("scalar-output", "1")
	}
	w.Schema = BuildSchema("edi", enc, fd, decls)
	w.UsesJS, w.Ext = js || w.UsesJS, ext
	w.Name = fmt.Sprintf("gen:edi(fields=%d,items=%d,recs=%d,seg=%q,elem=%q,rel=%q,comp=%q)", sh.NFields, sh.NItemFields, len(w.LRecs), segDelim, elemDelim, release, comp)
	finish(w, enc, bom)
	return w
}
