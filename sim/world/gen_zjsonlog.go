package world

import (
	"fmt"
	"strings"

	"verif/sim/tape"
)

// The repository's sample of a caller-supplied file format, extensions/omniv21/samples/
// customfileformats/jsonlog: one JSON object per line, read with the library's line reader and its
// JSON stream reader, filtered with the FINAL_OUTPUT xpath. The harness registers the format through
// an omniparser.Extension (run.NewSchemaFrom), the way a caller does.
func init() {
	registerGen("jsonlog", genJSONLog)
}

func genJSONLog(t *tape.Tape, o GenOpts) *World {
	w, sh, enc, bom := newGenWorld(t, "jsonlog", o, false)
	enc = "" // the format reads its lines as they come
	fn := fieldNames("F", sh.NFields)
	m := Model{Fields: fn, IntField: fn[sh.IntIdx]}
	do := declOptsOf(o)
	do.OwnDataOnly = true // a log line has no context outside itself
	do.Probe = false      // the extension that carries the format has the stock custom functions only
	decls, js, ext := GenDecls(t, m, do)
	addPoisonable(decls, m.IntField)
	addJSPoisonable(t, w, decls, o, fn)
	decls["FINAL_OUTPUT"].(D)["xpath"] = "." // the format wants a filter, always
	if x := flatTarget(sh); x != "" {
		decls["FINAL_OUTPUT"].(D)["xpath"] = x
	}
	numAsNumber := t.Bool("jsonlog.num")
	w.Render = func(r LRec) string {
		var parts []string
		for i, v := range r.Vals {
			if i == sh.IntIdx && numAsNumber != r.OtherType && isDigits(v) {
				parts = append(parts, jsonStr(fn[i])+":"+v)
			} else {
				parts = append(parts, jsonStr(fn[i])+":"+jsonStr(v))
			}
		}
		return "{" + strings.Join(parts, ", ") + "}"
	}
	eol := lineEnd(t)
	w.Sep = eol
	if t.Chance("jsonlog.blank", 1, 4) {
		w.Sep = eol + eol // blank lines between log lines are skipped
	}
	if t.Bool("jsonlog.eol-at-end") {
		w.Suffix = eol
	}
	drawRecs(t, w, sh, o)
	w.Schema = BuildSchema("jsonlog", "", nil, decls)
	w.UsesJS, w.Ext = js || w.UsesJS, ext
	w.Name = fmt.Sprintf("gen:jsonlog(fields=%d,recs=%d)", sh.NFields, len(w.LRecs))
	w.SetTag("custom-format", "jsonlog")
	finish(w, enc, bom)
	return w
}
