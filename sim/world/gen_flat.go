package world

import (
	"fmt"
	"strings"
	"unicode/utf8"

	"verif/sim/tape"
)

func init() {
	registerGen("csv", genCSV)
	registerGen("csv2", genCSV2)
	registerGen("fixed-length", genFixed)
	registerGen("fixedlength2", genFixed2)
}

// csvField renders one RFC-4180 field.
func csvField(v string, delim string, forceQuote bool) string {
	if forceQuote || strings.ContainsAny(v, "\"\r\n") || strings.Contains(v, delim) {
		return `"` + strings.ReplaceAll(v, `"`, `""`) + `"`
	}
	return v
}

func csvLine(vals []string, delim string, quoteIdx int) string {
	parts := make([]string, len(vals))
	for i, v := range vals {
		parts[i] = csvField(v, delim, i == quoteIdx)
	}
	return strings.Join(parts, delim)
}

// spice occasionally makes a value contain csv-special characters.
func csvSpice(t *tape.Tape, v string, delim string) string {
	switch t.Weighted("csv.spice", 12, 1, 1, 1) {
	case 1:
		return v + delim + "x"
	case 2:
		return `q"` + v
	case 3:
		return v + "\nnl"
	}
	return v
}

func lineEnd(t *tape.Tape) string {
	if t.Chance("gen.crlf", 1, 4) {
		return "\r\n"
	}
	return "\n"
}

// innerEOL is the line end used between the rows of one multi-row record: sometimes followed by
// a blank line (which every line-based reader skips).
func innerEOL(t *tape.Tape, eol string) string {
	if t.Chance("gen.innerBlank", 1, 4) {
		return eol + eol
	}
	return eol
}

func flatTarget(sh Shape) string {
	if sh.NumericFilter {
		return ".[F1 >= 0]"
	}
	if sh.SkipValue != "" {
		switch sh.BareFilter {
		case 1:
			return "F0 != '" + sh.SkipValue + "'"
		case 2:
			return "F0 != '" + sh.SkipValue + "' and F0 != '" + sh.SkipValue + "-never'"
		}
		return ".[F0 != '" + sh.SkipValue + "']"
	}
	return ""
}

// paddedTarget is flatTarget for fixed-width fields (values carry their padding).
func paddedTarget(sh Shape) string {
	if sh.NumericFilter {
		return ".[F1 >= 0]"
	}
	if sh.SkipValue != "" {
		switch sh.BareFilter {
		case 1:
			return "not(starts-with(F0, '" + sh.SkipValue + "'))"
		case 2:
			return "not(starts-with(F0, '" + sh.SkipValue + "')) and F0 != '" + sh.SkipValue + "-never'"
		}
		return ".[not(starts-with(F0, '" + sh.SkipValue + "'))]"
	}
	return ""
}

func genCSV(t *tape.Tape, o GenOpts) *World {
	w, sh, enc, bom := newGenWorld(t, "csv", o, false)
	fn := fieldNames("F", sh.NFields)
	delim := t.Pick("csv.delim", ",", "|", "\t", ";")
	m := Model{Fields: fn, IntField: fn[sh.IntIdx]}
	do := declOptsOf(o)
	do.OwnDataOnly = true // the old csv reader keeps no context outside the record
	decls, js, ext := GenDecls(t, m, do)
	addPoisonable(decls, m.IntField)
	addJSPoisonable(t, w, decls, o, fn)
	addAncestorJS(w, decls, o)
	if x := flatTarget(sh); x != "" {
		decls["FINAL_OUTPUT"].(D)["xpath"] = x
	}
	cols := make([]interface{}, len(fn))
	for i, f := range fn {
		cols[i] = D{"name": f}
	}
	fd := D{"delimiter": delim, "data_row_index": 1, "columns": cols}
	eol := lineEnd(t)
	hdr := t.Weighted("csv.header", 1, 2, 1, 1)
	switch hdr {
	case 3: // two lines of preamble that are skipped without being looked at, no header
		fd["data_row_index"] = 3
		w.Prefix = "junk" + delim + "junk" + eol + "more junk" + delim + "more" + eol
	case 1:
		fd["header_row_index"] = 1
		fd["data_row_index"] = 2
		w.Prefix = strings.Join(fn, delim) + eol
	case 2: // junk line, header, blank line, data
		fd["header_row_index"] = 2
		fd["data_row_index"] = 4
		w.Prefix = "junk" + eol + strings.Join(fn, delim) + eol + "more junk" + eol
	}
	spicy := t.Bool("csv.spicy")
	quoteEvery := t.Chance("csv.quoteall", 1, 5)
	replaceDQ := t.Chance("csv.replacedq", 1, 4)
	if replaceDQ {
		// double quotes in the data are turned into single quotes by a byte-replacing reader: fields
		// are never quoted and may carry stray double quotes
		fd["replace_double_quotes"] = true
		spicy, quoteEvery = false, false
		w.SetTag("csv.replace-double-quotes", "1")
	}
	w.Render = func(r LRec) string {
		vals := r.Vals
		if r.Short > 0 && len(vals)-r.Short >= 2 {
			vals = vals[:len(vals)-r.Short] // a ragged row: fewer fields than declared columns
		}
		if replaceDQ {
			return strings.Join(dqVals(vals), delim)
		}
		if r.Bad {
			return vals[0] + delim + `bare"quote` + delim + "x"
		}
		q := -1
		if quoteEvery {
			q = 0
		}
		return csvLine(vals, delim, q)
	}
	ragged := t.Chance("csv.ragged", 1, 3)
	badRows := !replaceDQ && !o.NoBadRows && t.Chance("csv.badrows", 1, 3)
	if badRows {
		w.SetTag("csv.bad-rows", "1")
	}
	noFinalEOL := t.Chance("gen.noFinalEOL", 1, 4)
	w.Sep = eol
	if t.Chance("gen.blankLines", 1, 4) {
		w.Sep = eol + eol
	}
	if !noFinalEOL {
		w.Suffix = eol
	}
	min, max := o.MinRecs, o.MaxRecs
	if max == 0 {
		max = 12
	}
	t.Repeat("recs", min, max, 4, 5, func(int) {
		r := DrawRec(t, sh)
		if badRows && t.Chance("csv.bad.row", 1, 5) && r.Vals[0] != sh.SkipValue {
			r.Bad = true
		}
		if ragged && t.Chance("csv.ragged.row", 1, 3) {
			r.Short = 1 + t.Intn("csv.ragged.n", 3)
		}
		if spicy {
			k := 2 % len(r.Vals)
			if k != sh.IntIdx && k != 0 {
				r.Vals[k] = csvSpice(t, r.Vals[k], delim)
			}
		}
		w.LRecs = append(w.LRecs, r)
	})
	for _, r := range w.LRecs {
		w.RecTexts = append(w.RecTexts, w.Render(r))
	}
	if MaybeScalarOutput(t, decls, m, o) {
		w.SetTag("scalar-output", "1")
	}
	w.Schema = BuildSchema("csv", enc, fd, decls)
	w.UsesJS, w.Ext = js || w.UsesJS, ext
	w.Name = fmt.Sprintf("gen:csv(fields=%d,recs=%d,delim=%q,hdr=%d)", sh.NFields, len(w.LRecs), delim, hdr)
	finish(w, enc, bom)
	return w
}

// dqVals puts a stray double quote into values that contain a '.', for replace_double_quotes worlds.
func dqVals(vals []string) []string {
	out := make([]string, len(vals))
	for i, v := range vals {
		out[i] = strings.ReplaceAll(v, ".", "\"")
	}
	return out
}

// ---- csv2 ----

func genCSV2(t *tape.Tape, o GenOpts) *World {
	layout := t.Weighted("csv2.layout", 3, 2, 3) // single row (+ optional global header) | header/footer multi-row | nested
	w, sh, enc, bom := newGenWorld(t, "csv2", o, layout == 2)
	fn := fieldNames("F", sh.NFields)
	gn := fieldNames("G", sh.NItemFields)
	delim := t.Pick("csv.delim", ",", "|", ";")
	eol := lineEnd(t)
	ieol := innerEOL(t, eol)
	m := Model{Fields: fn, IntField: fn[sh.IntIdx]}
	var recDecl D
	replaceDQ2 := false
	var records []interface{}
	globalHdr := layout != 1 && t.Bool("csv2.global")
	if globalHdr {
		records = append(records, D{"name": "HDR", "header": "^HDR", "min": 1, "max": 1,
			"columns": []interface{}{D{"name": "h0", "index": 2}}})
		w.Prefix = "HDR" + delim + csvField(Text(t, sh.Charset, 6), delim, false) + eol
		m.Ctx = []string{"../HDR/h0"}
	}
	switch layout {
	case 0:
		cols := make([]interface{}, len(fn))
		for i, f := range fn {
			cols[i] = D{"name": f, "index": i + 2}
		}
		recDecl = D{"name": "R", "header": "^R" + regexpQuote(delim), "is_target": true, "columns": cols}
		if !globalHdr && t.Bool("csv2.rowsbased") {
			delete(recDecl, "header")
			for i := range cols {
				cols[i].(D)["index"] = i + 1
			}
			w.Render = func(r LRec) string { return csvLine(r.Vals, delim, -1) }
		} else {
			w.Render = func(r LRec) string { return "R" + delim + csvLine(r.Vals, delim, -1) }
		}
		if t.Chance("csv.replacedq", 1, 3) {
			replaceDQ2 = true
			inner := w.Render
			_ = inner
			rowsBased := recDecl["header"] == nil
			w.Render = func(r LRec) string {
				if rowsBased {
					return strings.Join(dqVals(r.Vals), delim)
				}
				return "R" + delim + strings.Join(dqVals(r.Vals), delim)
			}
			w.SetTag("csv.replace-double-quotes", "1")
		}
	case 1:
		// B,<f0>,<f1>  /  M,<f2..>  /  E
		cols := make([]interface{}, len(fn))
		for i, f := range fn {
			if i < 2 {
				cols[i] = D{"name": f, "index": i + 2, "line_pattern": "^B"}
			} else if t.Bool("csv2.lineindex") {
				cols[i] = D{"name": f, "index": i, "line_index": 2}
			} else {
				cols[i] = D{"name": f, "index": i, "line_pattern": "^M"}
			}
		}
		recDecl = D{"name": "R", "header": "^B" + regexpQuote(delim), "footer": "^E$", "is_target": true, "columns": cols}
		w.Render = func(r LRec) string {
			return "B" + delim + csvLine(r.Vals[:2], delim, -1) + ieol + "M" + delim + csvLine(r.Vals[2:], delim, -1) + ieol + "E"
		}
	default:
		cols := make([]interface{}, len(fn))
		for i, f := range fn {
			cols[i] = D{"name": f, "index": i + 2}
		}
		recDecl = D{"name": "H", "header": "^H" + regexpQuote(delim), "is_target": true, "columns": cols}
		if sh.NItemFields > 0 {
			icols := make([]interface{}, len(gn))
			for i, g := range gn {
				icols[i] = D{"name": g, "index": i + 2}
			}
			child := D{"name": "D", "header": "^D" + regexpQuote(delim), "columns": icols}
			if t.Bool("csv2.childgroup") {
				child = D{"name": "GRP", "type": "record_group", "child_records": []interface{}{child}}
				m.Item = &ItemModel{XPath: "GRP/D", Fields: gn, IntField: gn[sh.ItemIntIdx]}
			} else {
				m.Item = &ItemModel{XPath: "D", Fields: gn, IntField: gn[sh.ItemIntIdx]}
			}
			recDecl["child_records"] = []interface{}{child}
		}
		w.Render = func(r LRec) string {
			var sb strings.Builder
			sb.WriteString("H" + delim + csvLine(r.Vals, delim, -1))
			for _, it := range r.Items {
				sb.WriteString(ieol + "D" + delim + csvLine(it, delim, -1))
			}
			return sb.String()
		}
	}
	if layout == 1 && sh.NFields < 3 {
		// need at least 3 fields for the M line; fall back to putting everything on B
		cols := make([]interface{}, len(fn))
		for i, f := range fn {
			cols[i] = D{"name": f, "index": i + 2, "line_pattern": "^B"}
		}
		recDecl["columns"] = cols
		w.Render = func(r LRec) string {
			return "B" + delim + csvLine(r.Vals, delim, -1) + ieol + "M" + ieol + "E"
		}
	}
	// the target inside a non-target parent record (a batch header with the records below it): the
	// parent stays while its children come and go; it may be closed and a new one opened between records
	parentReopen, parentLine := false, ""
	if recDecl["header"] != nil && o.Family == "" && t.Chance("csv2.parent", 1, 4) {
		parent := D{"name": "P", "header": "^P" + regexpQuote(delim), "min": 0, "max": -1,
			"columns": []interface{}{D{"name": "p0", "index": 2}}, "child_records": []interface{}{recDecl}}
		recDecl = parent
		pline := "P" + delim + csvField(Text(t, sh.Charset, 5), delim, false)
		w.Prefix += pline + eol
		if !o.OwnDataOnly {
			for i := range m.Ctx {
				m.Ctx[i] = "../" + m.Ctx[i]
			}
			m.Ctx = append(m.Ctx, "../p0")
		}
		parentReopen = !o.NoSiblingContext && t.Bool("csv2.parent.reopen")
		parentLine = pline
		w.SetTag("flat.target-inside-a-parent-record", "1")
	}
	records = append(records, recDecl)
	trailer := layout != 1 && globalHdr && t.Bool("csv2.trailer")
	if trailer {
		records = append(records, D{"name": "TRL", "header": "^TRL", "min": 1, "max": 1})
	}
	decls, js, ext := GenDecls(t, m, declOptsOf(o))
	addPoisonable(decls, m.IntField)
	addJSPoisonable(t, w, decls, o, fn)
	addAncestorJS(w, decls, o)
	if x := flatTarget(sh); x != "" {
		decls["FINAL_OUTPUT"].(D)["xpath"] = x
	}
	fd := D{"delimiter": delim, "records": records}
	if replaceDQ2 {
		fd["replace_double_quotes"] = true
	}
	w.Sep = eol
	if t.Chance("gen.blankLines", 1, 4) {
		w.Sep = eol + eol
	}
	if parentReopen {
		w.Sep += parentLine + eol
	}
	if trailer {
		w.Suffix = eol + "TRL" + delim + "9"
	}
	if !t.Chance("gen.noFinalEOL", 1, 4) {
		w.Suffix += eol
	}
	drawRecs(t, w, sh, o)
	if trailer && len(w.LRecs) == 0 {
		w.Suffix = strings.TrimPrefix(w.Suffix, eol)
	}
	if MaybeScalarOutput(t, decls, m, o) {
		w.SetTag("scalar-output", "1")
	}
	w.Schema = BuildSchema("csv2", enc, fd, decls)
	w.UsesJS, w.Ext = js || w.UsesJS, ext
	w.Name = fmt.Sprintf("gen:csv2(layout=%d,fields=%d,items=%d,recs=%d)", layout, sh.NFields, sh.NItemFields, len(w.LRecs))
	if layout == 1 {
		w.SetTag("envelope", "header_footer")
	}
	finish(w, enc, bom)
	return w
}

func regexpQuote(s string) string {
	if s == "|" {
		return `\|`
	}
	return s
}

// ---- fixed-length ----

func pad(v string, width int) string {
	n := utf8.RuneCountInString(v)
	if n > width {
		r := []rune(v)
		return string(r[:width])
	}
	return v + strings.Repeat(" ", width-n)
}

func noNewline(sh *Shape) {}

func fixedCols(names []string, start, width int, extra func(i int, d D)) []interface{} {
	cols := make([]interface{}, len(names))
	for i, f := range names {
		d := D{"name": f, "start_pos": start + i*width, "length": width}
		if extra != nil {
			extra(i, d)
		}
		cols[i] = d
	}
	return cols
}

func fixedLine(tag string, vals []string, width int) string {
	var sb strings.Builder
	sb.WriteString(tag)
	for _, v := range vals {
		sb.WriteString(pad(v, width))
	}
	return sb.String()
}

func genFixed(t *tape.Tape, o GenOpts) *World {
	layout := t.Weighted("fl.layout", 3, 2, 3) // by_rows 1 | by_rows 2 | header/footer
	if o.UnmatchedTrailer {
		layout = 2
	}
	w, sh, enc, bom := newGenWorld(t, "fixed-length", o, false)
	fn := fieldNames("F", sh.NFields)
	width := sh.MaxVal + 2
	if t.Chance("fl.wide", 1, 10) {
		width = 1200 // lines beyond the 4096-byte bufio buffer
		w.SetTag("long-lines", "1")
	}
	eol := lineEnd(t)
	ieol := innerEOL(t, eol)
	m := Model{Fields: fn, IntField: fn[sh.IntIdx]}
	var envs []interface{}
	switch layout {
	case 0:
		envs = []interface{}{D{"columns": fixedCols(fn, 1, width, nil)}}
		w.Render = func(r LRec) string { return fixedLine("", r.Vals, width) }
	case 1:
		cols := fixedCols(fn, 2, width, func(i int, d D) {
			if i%2 == 0 {
				d["line_pattern"] = "^A"
			} else {
				d["line_pattern"] = "^B"
			}
			d["start_pos"] = 2 + (i/2)*width
		})
		envs = []interface{}{D{"by_rows": 2, "columns": cols}}
		w.Render = func(r LRec) string {
			var a, b []string
			for i, v := range r.Vals {
				if i%2 == 0 {
					a = append(a, v)
				} else {
					b = append(b, v)
				}
			}
			return fixedLine("A", a, width) + ieol + fixedLine("B", b, width)
		}
	default:
		cols := fixedCols(fn, 5, width, func(i int, d D) { d["line_pattern"] = "^V020" })
		envs = []interface{}{
			D{"name": "GLOBAL", "by_header_footer": D{"header": "^A010", "footer": "^A999"}, "not_target": true,
				"columns": []interface{}{D{"name": "h0", "start_pos": 5, "length": 6, "line_pattern": "^A060"}}},
			D{"name": "V", "by_header_footer": D{"header": "^V010", "footer": "^V999"}, "columns": cols},
			D{"name": "Z", "by_header_footer": D{"header": "^Z001", "footer": "^Z999"}, "not_target": true},
		}
		w.Prefix = "A010" + eol + "A060" + pad(Text(t, sh.Charset, 6), 6) + eol + "A999" + eol
		w.Render = func(r LRec) string {
			return "V010" + ieol + fixedLine("V020", r.Vals, width) + ieol + "V999"
		}
		w.Suffix = eol + "Z001" + eol + "Z999"
		if o.UnmatchedTrailer {
			// a last line that matches no envelope's header: this reader takes it for the end of the input
			w.Suffix += eol + UnmatchedTrailerLine
			w.SetTag("unmatched-trailing-line", "1")
		}
		if !o.OwnDataOnly {
			m.Ctx = []string{"../GLOBAL/h0"}
		}
		w.SetTag("envelope", "header_footer")
	}
	decls, js, ext := GenDecls(t, m, declOptsOf(o))
	addPoisonable(decls, m.IntField)
	addJSPoisonable(t, w, decls, o, fn)
	addAncestorJS(w, decls, o)
	if x := paddedTarget(sh); x != "" {
		decls["FINAL_OUTPUT"].(D)["xpath"] = x
	}
	fd := D{"envelopes": envs}
	w.Sep = eol
	if t.Chance("gen.blankLines", 1, 4) {
		w.Sep = eol + eol
	}
	if !t.Chance("gen.noFinalEOL", 1, 4) {
		w.Suffix += eol
	}
	drawRecs(t, w, sh, o)
	if layout == 2 && len(w.LRecs) == 0 {
		w.Suffix = strings.TrimPrefix(w.Suffix, eol)
	}
	if MaybeScalarOutput(t, decls, m, o) {
		w.SetTag("scalar-output", "1")
	}
	w.Schema = BuildSchema("fixed-length", enc, fd, decls)
	w.UsesJS, w.Ext = js || w.UsesJS, ext
	w.Name = fmt.Sprintf("gen:fixed-length(layout=%d,fields=%d,width=%d,recs=%d)", layout, sh.NFields, width, len(w.LRecs))
	finish(w, enc, bom)
	return w
}

// UnmatchedTrailerLine is a line no generated envelope declares.
const UnmatchedTrailerLine = "Q000 a line no envelope declares"

func genFixed2(t *tape.Tape, o GenOpts) *World {
	layout := t.Weighted("fl2.layout", 3, 2, 2, 3) // rows 1 | rows 2 | header/footer | nested
	w, sh, enc, bom := newGenWorld(t, "fixedlength2", o, layout == 3)
	fn := fieldNames("F", sh.NFields)
	gn := fieldNames("G", sh.NItemFields)
	width := sh.MaxVal + 2
	if t.Chance("fl.wide", 1, 10) {
		width = 1200
		w.SetTag("long-lines", "1")
	}
	eol := lineEnd(t)
	ieol := innerEOL(t, eol)
	m := Model{Fields: fn, IntField: fn[sh.IntIdx]}
	var envs []interface{}
	hfByIndex := false
	globalHdr := layout >= 2 && t.Bool("fl2.global")
	if globalHdr {
		envs = append(envs, D{"name": "HDR", "header": "^HDR", "min": 1, "max": 1,
			"columns": []interface{}{D{"name": "h0", "start_pos": 4, "length": 6}}})
		w.Prefix = "HDR" + pad(Text(t, sh.Charset, 6), 6) + eol
		if !o.OwnDataOnly {
			m.Ctx = []string{"../HDR/h0"}
		}
	}
	switch layout {
	case 0:
		envs = append(envs, D{"name": "R", "is_target": true, "columns": fixedCols(fn, 1, width, nil)})
		w.Render = func(r LRec) string { return fixedLine("", r.Vals, width) }
	case 1:
		byIndex := t.Bool("fl2.lineindex")
		cols := fixedCols(fn, 2, width, func(i int, d D) {
			if byIndex {
				d["line_index"] = 1 + i%2
			} else if i%2 == 0 {
				d["line_pattern"] = "^A"
			} else {
				d["line_pattern"] = "^B"
			}
			d["start_pos"] = 2 + (i/2)*width
		})
		envs = append(envs, D{"name": "R", "rows": 2, "is_target": true, "columns": cols})
		w.Render = func(r LRec) string {
			var a, b []string
			for i, v := range r.Vals {
				if i%2 == 0 {
					a = append(a, v)
				} else {
					b = append(b, v)
				}
			}
			return fixedLine("A", a, width) + ieol + fixedLine("B", b, width)
		}
	case 2:
		hfByIndex = !o.OwnDataOnly && !sh.NumericFilter && t.Bool("fl2.hf.lineindex")
		if hfByIndex {
			// columns found by line_index in an envelope whose number of lines depends on the data: the
			// even fields on the second line, the odd ones on the third; a record may come without its
			// third line, or without both (then the footer is the line a line_index points at, or there
			// is no such line at all)
			cols := fixedCols(fn, 5, width, func(i int, d D) {
				d["line_index"] = 2 + i%2
				d["start_pos"] = 5 + (i/2)*width
			})
			envs = append(envs, D{"name": "R", "header": "^V010", "footer": "^V999", "is_target": true, "columns": cols})
			w.Render = func(r LRec) string {
				var a, b []string
				for i, v := range r.Vals {
					if i%2 == 0 {
						a = append(a, v)
					} else {
						b = append(b, v)
					}
				}
				out := "V010"
				if r.Short < 2 {
					out += ieol + fixedLine("V020", a, width)
				}
				if r.Short < 1 {
					out += ieol + fixedLine("V030", b, width)
				}
				return out + ieol + "V999"
			}
			w.SetTag("fl2.line-index-in-header-footer-envelope", "1")
			w.SetTag("envelope", "header_footer")
			break
		}
		cols := fixedCols(fn, 5, width, func(i int, d D) { d["line_pattern"] = "^V020" })
		envs = append(envs, D{"name": "R", "header": "^V010", "footer": "^V999", "is_target": true, "columns": cols})
		w.Render = func(r LRec) string {
			return "V010" + ieol + fixedLine("V020", r.Vals, width) + ieol + "V999"
		}
		w.SetTag("envelope", "header_footer")
	default:
		env := D{"name": "H", "header": "^H", "is_target": true, "columns": fixedCols(fn, 2, width, nil)}
		if sh.NItemFields > 0 {
			child := D{"name": "D", "header": "^D", "columns": fixedCols(gn, 2, width, nil)}
			if t.Bool("fl2.childgroup") {
				child = D{"name": "GRP", "type": "envelope_group", "child_envelopes": []interface{}{child}}
				m.Item = &ItemModel{XPath: "GRP/D", Fields: gn, IntField: gn[sh.ItemIntIdx]}
			} else {
				m.Item = &ItemModel{XPath: "D", Fields: gn, IntField: gn[sh.ItemIntIdx]}
			}
			env["child_envelopes"] = []interface{}{child}
		}
		envs = append(envs, env)
		w.Render = func(r LRec) string {
			var sb strings.Builder
			sb.WriteString(fixedLine("H", r.Vals, width))
			for _, it := range r.Items {
				sb.WriteString(ieol + fixedLine("D", it, width))
			}
			return sb.String()
		}
	}
	// the target inside a non-target parent envelope (see csv2)
	fl2Reopen, fl2ParentLine := false, ""
	if layout >= 2 && o.Family == "" && t.Chance("fl2.parent", 1, 4) {
		last := envs[len(envs)-1].(D)
		parent := D{"name": "P", "header": "^P", "min": 0, "max": -1,
			"columns": []interface{}{D{"name": "p0", "start_pos": 2, "length": 5}}, "child_envelopes": []interface{}{last}}
		envs[len(envs)-1] = parent
		fl2ParentLine = "P" + pad(Text(t, sh.Charset, 5), 5)
		w.Prefix += fl2ParentLine + eol
		if !o.OwnDataOnly {
			for i := range m.Ctx {
				m.Ctx[i] = "../" + m.Ctx[i]
			}
			m.Ctx = append(m.Ctx, "../p0")
		}
		fl2Reopen = !o.NoSiblingContext && t.Bool("fl2.parent.reopen")
		w.SetTag("flat.target-inside-a-parent-record", "1")
	}
	trailer := globalHdr && t.Bool("fl2.trailer")
	if trailer {
		envs = append(envs, D{"name": "TRL", "header": "^TRL", "min": 1, "max": 1})
	}
	decls, js, ext := GenDecls(t, m, declOptsOf(o))
	addPoisonable(decls, m.IntField)
	addJSPoisonable(t, w, decls, o, fn)
	addAncestorJS(w, decls, o)
	if x := paddedTarget(sh); x != "" {
		decls["FINAL_OUTPUT"].(D)["xpath"] = x
	}
	fd := D{"envelopes": envs}
	w.Sep = eol
	if t.Chance("gen.blankLines", 1, 4) {
		w.Sep = eol + eol
	}
	if fl2Reopen {
		w.Sep += fl2ParentLine + eol
	}
	if trailer {
		w.Suffix = eol + "TRL9"
	}
	if !t.Chance("gen.noFinalEOL", 1, 4) {
		w.Suffix += eol
	}
	drawRecs(t, w, sh, o)
	if hfByIndex {
		for i := range w.LRecs {
			if w.LRecs[i].Vals[0] != sh.SkipValue && t.Chance("fl2.hf.short", 1, 3) {
				w.LRecs[i].Short = 1 + t.Intn("fl2.hf.short.n", 2)
				w.RecTexts[i] = w.Render(w.LRecs[i])
			}
		}
	}
	if trailer && len(w.LRecs) == 0 {
		w.Suffix = strings.TrimPrefix(w.Suffix, eol)
	}
	if MaybeScalarOutput(t, decls, m, o) {
		w.SetTag("scalar-output", "1")
	}
	w.Schema = BuildSchema("fixedlength2", enc, fd, decls)
	w.UsesJS, w.Ext = js || w.UsesJS, ext
	w.Name = fmt.Sprintf("gen:fixedlength2(layout=%d,fields=%d,items=%d,width=%d,recs=%d)", layout, sh.NFields, sh.NItemFields, width, len(w.LRecs))
	finish(w, enc, bom)
	return w
}
