package world

import (
	"encoding/json"
	"fmt"
	"strings"

	"verif/sim/tape"
)

func init() {
	registerGen("xml", genXML)
	registerGen("json", genJSON)
}

func fieldNames(prefix string, n int) []string {
	out := make([]string, n)
	for i := range out {
		out[i] = fmt.Sprintf("%s%d", prefix, i)
	}
	return out
}

var xmlEsc = strings.NewReplacer("&", "&amp;", "<", "&lt;", ">", "&gt;", `"`, "&quot;")

// common bookkeeping of generated worlds
func newGenWorld(t *tape.Tape, format string, o GenOpts, allowItems bool) (*World, Shape, string, bool) {
	enc, cs, bom := drawEncoding(t, o.Encodings)
	sh := DrawShape(t, cs, allowItems)
	if o.NumericFilter {
		sh.NumericFilter, sh.SkipValue = true, ""
	}
	w := &World{Format: format, Generated: true, Tags: map[string]string{}}
	if sh.NumericFilter {
		w.Tags["family"] = "numeric-filter"
	}
	w.Shape = sh
	return w, sh, enc, bom
}

func drawRecs(t *tape.Tape, w *World, sh Shape, o GenOpts) {
	min, max := o.MinRecs, o.MaxRecs
	if max == 0 {
		max = 12
	}
	t.Repeat("recs", min, max, 4, 5, func(int) {
		w.LRecs = append(w.LRecs, DrawRec(t, sh))
	})
	w.RecTexts = w.RecTexts[:0]
	for _, r := range w.LRecs {
		w.RecTexts = append(w.RecTexts, w.Render(r))
	}
}

func declOptsOf(o GenOpts) DeclOpts {
	return DeclOpts{NoJS: o.NoJS, OwnDataOnly: o.OwnDataOnly, Collide: o.Family == "collide", Probe: o.Probe, Pathological: o.Pathological}
}

// addPoisonable makes sure FINAL_OUTPUT casts the int field, so that a non-numeric value (or
// a duplicated element) fails exactly that record.
func addPoisonable(decls D, intField string) {
	obj := decls["FINAL_OUTPUT"].(D)["object"].(D)
	obj["kint"] = D{"xpath": intField, "type": "int"}
}

// addAncestorJS adds the "kanc" declaration: javascript_with_context evaluated on the record's
// parent, a node that outlives the record (scenario family "ancestor-js").
func addAncestorJS(w *World, decls D, o GenOpts) {
	if o.Family != "ancestor-js" {
		return
	}
	obj := decls["FINAL_OUTPUT"].(D)["object"].(D)
	// declarations evaluated with the cursor on the record's parent: the node stays, what it holds changes
	obj["kancobj"] = D{"xpath": "..", "object": D{
		"firsts": D{"array": []interface{}{D{"xpath": "*/*[1]"}}},
		"last":   D{"xpath": "*[last()]/*[1]", "keep_empty_or_null": true}}}
	w.SetTag("family", "ancestor-js")
	if o.NoJS {
		return
	}
	obj["kanc"] = D{"xpath": "..", "custom_func": D{"name": "javascript_with_context", "args": []interface{}{D{"const": "_node"}}}}
	// ... and on the node above that one (where there is one), whose own children stay as well
	obj["kanc2"] = D{"xpath": "../..", "custom_func": D{"name": "javascript_with_context", "args": []interface{}{D{"const": "_node"}}}}
	w.UsesJS = true
}

// BoomValue makes the "kjs" declaration throw.
const BoomValue = "BOOM"

// addJSPoisonable adds a javascript declaration that throws when the given field holds BoomValue.
func addJSPoisonable(t *tape.Tape, w *World, decls D, o GenOpts, fields []string) {
	if o.NoJS || !t.Bool("gen.kjs") {
		return
	}
	idx := len(fields) - 1
	obj := decls["FINAL_OUTPUT"].(D)["object"].(D)
	thrown := "new Error('boom')"
	if t.Chance("gen.kjs.thrown-object", 1, 3) {
		// what is thrown has a string conversion of its own, which reads the call's argument: the
		// failure text has to be produced while the call still owns its runtime
		thrown = "{ toString: function() { return 'boom:' + a.length } }"
		switch t.Intn("gen.kjs.thrown-object.throws", 3) {
		case 1:
			// ... or fails itself
			thrown = "{ toString: function() { throw new Error('no description') } }"
		case 2:
			// ... by throwing the very object again
			thrown = "{ toString: function() { throw this } }"
		}
		w.SetTag("js.thrown-object-with-tostring", "1")
	}
	script := "if (a == '" + BoomValue + "') { throw " + thrown + "; } a"
	switch t.Weighted("gen.kjs.state", 4, 1, 1) {
	case 1:
		// the run that fails has written a top-level variable before it throws; the next run of the
		// script (pooled runtime) must not find it: a failing record affects only itself
		script = "var seen; if (a == '" + BoomValue + "') { seen = 1; throw " + thrown + "; } (seen === undefined ? a : 'LEFT-BY-A-FAILED-RUN:' + a)"
		w.SetTag("js.failing-run-writes-a-global", "var")
	case 2:
		// ... or a name it never declared
		script = "if (a == '" + BoomValue + "') { leftover = 1; throw " + thrown + "; } (typeof leftover === 'undefined' ? a : 'LEFT-BY-A-FAILED-RUN:' + a)"
		w.SetTag("js.failing-run-writes-a-global", "undeclared")
	}
	obj["kjs"] = cf("javascript", D{"const": script}, D{"const": "a"}, D{"xpath": fields[idx]})
	w.JSPoisonIdx = idx + 1
	w.UsesJS = true
}

func genXML(t *tape.Tape, o GenOpts) *World {
	w, sh, enc, bom := newGenWorld(t, "xml", o, true)
	fn := fieldNames("F", sh.NFields)
	gn := fieldNames("G", sh.NItemFields)
	useAttr := t.Bool("xml.attr")
	rootAttrs := ""
	var xmlWritten map[string]string // xpath name -> element name as written
	if t.Chance("xml.ns", 1, 3) {
		// namespace-prefixed elements (xpath addresses them by prefix)
		rootAttrs = ` xmlns:p="uri://verif/p"`
		xp, wp := "p:", "p:" // prefix as seen by xpath / as written in the document
		if t.Chance("xml.ns.dual", 1, 3) {
			// two prefixes bound to one URI: the reader reports the prefix declared last
			rootAttrs += ` xmlns:q="uri://verif/p"`
			xp = "q:"
			w.SetTag("xml.two-prefixes-one-uri", "1")
		}
		xmlWritten = map[string]string{}
		for i := 2; i < len(fn); i++ {
			xmlWritten[xp+fn[i]] = wp + fn[i]
			fn[i] = xp + fn[i]
		}
		w.SetTag("xml.namespaces", "1")
	}
	m := Model{Fields: append([]string{}, fn...), IntField: fn[sh.IntIdx], Ctx: []string{"../hdr/h0"}}
	// records one level further down, inside group elements: the target xpath has a middle step, with or
	// without a predicate on an attribute of the group (known when the group's start tag is read)
	grouped, groupPred, groupReopen := false, false, false
	if o.Family == "" && !sh.NumericFilter && t.Chance("xml.grouped", 1, 4) {
		grouped = true
		groupPred = t.Bool("xml.grouped.predicate")
		groupReopen = !o.NoSiblingContext && t.Bool("xml.grouped.reopen")
		m.Ctx = []string{"../../hdr/h0", "../ghdr", "../@k"}
		w.SetTag("xml.records-inside-groups", "1")
	}
	// the last field's value may be stored as an attribute of an element that has text but no child elements
	attrField := -1
	if len(fn)-1 != sh.IntIdx && len(fn) > 2 && t.Chance("xml.leaf-attribute", 1, 5) {
		attrField = len(fn) - 1
		m.Fields[attrField] = fn[attrField] + "/@u"
		w.SetTag("xml.leaf-attribute", fmt.Sprint(attrField))
	}
	if useAttr {
		m.Fields = append(m.Fields, "@a0")
	}
	if sh.NItemFields > 0 {
		m.Item = &ItemModel{XPath: "item", Fields: gn, IntField: gn[sh.ItemIntIdx]}
	}
	// ... or as an attribute of an element whose child elements all have one name (the items' wrapper)
	wrapField := -1
	if attrField < 0 && sh.NItemFields > 0 && len(fn)-1 != sh.IntIdx && len(fn) > 2 && t.Chance("xml.items-wrapper", 1, 4) {
		wrapField = len(fn) - 1
		m.Fields[wrapField] = "items/@w"
		m.Item.XPath = "items/item"
		w.SetTag("xml.array-like-attribute", fmt.Sprint(wrapField))
	}
	// ... or as text of the record element itself, next to its child elements (mixed content)
	mixedField := -1
	if attrField < 0 && wrapField < 0 && len(fn)-1 != sh.IntIdx && len(fn) > 2 && t.Chance("xml.mixed-content", 1, 6) {
		mixedField = len(fn) - 1
		m.Fields[mixedField] = "text()"
		w.SetTag("xml.mixed-content-text", fmt.Sprint(mixedField))
	}
	decls, js, ext := GenDecls(t, m, declOptsOf(o))
	addPoisonable(decls, m.IntField)
	addJSPoisonable(t, w, decls, o, m.Fields[:len(fn)])
	addAncestorJS(w, decls, o)
	target := "/root/rec"
	if sh.NumericFilter {
		target = "/root/rec[F1 >= 0]"
	} else if sh.SkipValue != "" {
		target = "/root/rec[F0 != '" + sh.SkipValue + "']"
		if useAttr && t.Bool("xml.attrfilter") {
			// the same verdict from the attribute, which is known at the start tag already
			target = "/root/rec[@a0 != '" + sh.SkipValue + "']"
			w.SetTag("xml.attribute-filter", "1")
		}
	}
	if o.TwoFilters && sh.SkipValue != "" && !sh.NumericFilter && t.Chance("xml.two-filters", 1, 3) {
		// two filters on the last step instead of one condition joined by 'and'; with attributes the
		// first of the two is one that is decided the moment the element is opened
		if useAttr {
			target = "/root/rec[@a0 != '" + sh.SkipValue + "'][F0 != '" + sh.SkipValue + "']"
		} else {
			target += "[" + fn[1] + " != 'no-such-value']"
		}
		w.SetTag("target.two-filters-on-the-last-step", "1")
	}
	if grouped {
		step := "/root/grp"
		if groupPred {
			step = "/root/grp[@k='A']"
		}
		target = step + strings.TrimPrefix(target, "/root")
	}
	decls["FINAL_OUTPUT"].(D)["xpath"] = target
	pretty := t.Weighted("xml.pretty", 2, 1, 1)
	// the text of an element may be stored in pieces: a comment or a CDATA section in the middle of it
	// makes the decoder deliver (and the reader attach) several text nodes for one value
	splitText := t.Weighted("xml.split-text", 3, 1, 1)
	if splitText > 0 {
		w.SetTag("xml.text-in-pieces", []string{"", "comment", "cdata"}[splitText])
	}
	elemText := func(v string) string {
		rs := []rune(v)
		if splitText == 0 || len(rs) < 2 || strings.Contains(v, "]]>") {
			return xmlEsc.Replace(v)
		}
		h := len(rs) / 2
		if splitText == 1 {
			return xmlEsc.Replace(string(rs[:h])) + "<!-- c -->" + xmlEsc.Replace(string(rs[h:]))
		}
		return xmlEsc.Replace(string(rs[:h])) + "<![CDATA[" + string(rs[h:]) + "]]>"
	}
	w.Render = func(r LRec) string {
		var sb strings.Builder
		sb.WriteString("<rec")
		if useAttr {
			sb.WriteString(` a0="` + xmlEsc.Replace(r.Vals[0]) + `"`)
		}
		sb.WriteString(">")
		for i, v := range r.Vals {
			reps := 1
			if r.Dup == i+1 {
				reps = 2
			}
			for k := 0; k < reps; k++ {
				el := fn[i]
				if wname, ok := xmlWritten[el]; ok {
					el = wname
				}
				if i == attrField {
					sb.WriteString("<" + el + ` u="` + xmlEsc.Replace(v) + `">t</` + el + ">")
					continue
				}
				if i == wrapField {
					continue // goes onto the items' wrapper
				}
				if i == mixedField {
					continue // written as text of the record element, behind its child elements
				}
				sb.WriteString("<" + el + ">" + elemText(v) + "</" + el + ">")
			}
		}
		if wrapField >= 0 {
			sb.WriteString(`<items w="` + xmlEsc.Replace(r.Vals[wrapField]) + `">`)
		}
		for _, it := range r.Items {
			sb.WriteString("<item>")
			for j, v := range it {
				sb.WriteString("<" + gn[j] + ">" + elemText(v) + "</" + gn[j] + ">")
			}
			sb.WriteString("</item>")
		}
		if wrapField >= 0 {
			sb.WriteString("</items>")
		}
		switch r.NS {
		case 1:
			sb.WriteString(`<note xmlns="uri://verif/p">n</note>`)
		case 2:
			sb.WriteString(`<z:note xmlns:z="uri://verif/p">n</z:note>`)
		case 3: // one element declares the URI twice: as the default namespace, then under the outer prefix again
			sb.WriteString(`<note xmlns="uri://verif/p" xmlns:p="uri://verif/p">n</note>`)
		case 4: // ... the other way round
			sb.WriteString(`<note xmlns:p="uri://verif/p" xmlns="uri://verif/p">n</note>`)
		}
		if mixedField >= 0 {
			sb.WriteString(xmlEsc.Replace(r.Vals[mixedField]))
		}
		sb.WriteString("</rec>")
		return sb.String()
	}
	w.Prefix = "<root" + rootAttrs + "><hdr><h0>" + xmlEsc.Replace(Text(t, sh.Charset, 6)) + "</h0></hdr>"
	switch pretty {
	case 1:
		w.Sep = "\n  "
		w.Prefix += "\n  "
		w.Suffix = "\n"
		w.SetTag("xml.whitespace", "1")
	case 2:
		w.Sep = "<!-- c --><other>x</other>"
		if o.NoSiblingContext {
			w.Sep = "<!-- c -->"
		}
	}
	if grouped {
		w.Prefix += `<grp k="A"><ghdr>` + xmlEsc.Replace(Text(t, sh.Charset, 4)) + "</ghdr>"
		if pretty == 1 {
			w.Prefix += "\n  "
		}
		if groupReopen {
			w.Sep += `</grp><grp k="A">`
		}
		w.Suffix += "</grp>"
		if groupPred {
			// a group the predicate rejects, with an element that would be a record elsewhere
			w.Suffix += `<grp k="B"><ghdr>b</ghdr><rec a0="zz"><F0>zz</F0><F1>1</F1></rec></grp>`
		}
	}
	w.Suffix += "</root>"
	drawRecs(t, w, sh, o)
	if xmlWritten != nil && t.Chance("xml.ns.inner", 1, 2) {
		// namespace declarations inside records: each is scoped to the element that carries it
		for i := range w.LRecs {
			if t.Chance("xml.ns.inner.rec", 1, 3) {
				w.LRecs[i].NS = 1 + t.Intn("xml.ns.inner.kind", 4)
				w.RecTexts[i] = w.Render(w.LRecs[i])
				w.SetTag("xml.namespace-declared-inside-record", "1")
			}
		}
	}
	if MaybeScalarOutput(t, decls, m, o) {
		w.SetTag("scalar-output", "1")
	}
	w.Schema = BuildSchema("xml", enc, nil, decls)
	w.UsesJS, w.Ext = js || w.UsesJS, ext
	w.Name = fmt.Sprintf("gen:xml(fields=%d,items=%d,recs=%d)", sh.NFields, sh.NItemFields, len(w.LRecs))
	w.CanDup = true
	finish(w, enc, bom)
	return w
}

func jsonStr(s string) string {
	b, _ := json.Marshal(s)
	return string(b)
}

func genJSON(t *tape.Tape, o GenOpts) *World {
	w, sh, enc, bom := newGenWorld(t, "json", o, true)
	fn := fieldNames("F", sh.NFields)
	gn := fieldNames("G", sh.NItemFields)
	m := Model{Fields: append([]string{}, fn...), IntField: fn[sh.IntIdx], Ctx: []string{"../../hdr/h0"}}
	if sh.NItemFields > 0 {
		m.Item = &ItemModel{XPath: "items/*", Fields: gn, IntField: gn[sh.ItemIntIdx]}
	}
	// records inside group objects: the target xpath has middle steps, with or without a predicate on a
	// member of the group that precedes the records
	grouped, groupPred, groupReopen := false, false, false
	// the document is an array of records and nothing else (a very common shape): no context outside the records
	topArr := o.Family == "" && t.Chance("json.top-level-array", 1, 5)
	if topArr {
		m.Ctx = nil
		w.SetTag("json.top-level-array", "1")
	} else if o.Family == "" && !sh.NumericFilter && t.Chance("json.grouped", 1, 4) {
		grouped = true
		groupPred = t.Bool("json.grouped.predicate")
		groupReopen = !o.NoSiblingContext && t.Bool("json.grouped.reopen")
		m.Ctx = []string{"../../../../hdr/h0", "../../k"}
		w.SetTag("json.records-inside-groups", "1")
	}
	decls, js, ext := GenDecls(t, m, declOptsOf(o))
	addPoisonable(decls, m.IntField)
	addJSPoisonable(t, w, decls, o, fn)
	addAncestorJS(w, decls, o)
	target := "/recs/*"
	if sh.NumericFilter {
		target = "/recs/*[F1 >= 0]"
	} else if sh.SkipValue != "" {
		target = "/recs/*[F0 != '" + sh.SkipValue + "']"
	}
	// a stream of top-level values, one per record (NDJSON), the top-level value being the target;
	// drawn here, applied below (the library as it stands reads the first value and refuses the rest)
	if o.TwoFilters && sh.SkipValue != "" && !sh.NumericFilter && t.Chance("json.two-filters", 1, 3) {
		target += "[" + fn[1] + " != 'no-such-value']"
		w.SetTag("target.two-filters-on-the-last-step", "1")
	}
	if topArr {
		target = strings.TrimPrefix(target, "/recs")
	}
	ndjson := !topArr && !grouped && o.Family == "" && !o.OwnDataOnly && t.Chance("json.ndjson", 1, 8)
	if grouped {
		step := "/grps/*"
		if groupPred {
			step = "/grps/*[k='A']"
		}
		target = step + target
	}
	if ndjson {
		target = "."
		if sh.NumericFilter {
			target = ".[F1 >= 0]"
		} else if sh.SkipValue != "" {
			target = ".[F0 != '" + sh.SkipValue + "']"
		}
		w.SetTag("json.stream-of-top-level-values", "1")
	}
	decls["FINAL_OUTPUT"].(D)["xpath"] = target
	numAsNumber := t.Bool("json.num")
	nl := t.Bool("json.newlines")
	w.Render = func(r LRec) string {
		var parts []string
		for i, v := range r.Vals {
			reps := 1
			if r.Dup == i+1 {
				reps = 2
			}
			for k := 0; k < reps; k++ {
				if i == sh.IntIdx && numAsNumber != r.OtherType && isDigits(v) {
					parts = append(parts, jsonStr(fn[i])+":"+v)
				} else {
					parts = append(parts, jsonStr(fn[i])+":"+jsonStr(v))
				}
			}
		}
		if sh.NItemFields > 0 {
			var its []string
			for _, it := range r.Items {
				var ps []string
				for j, v := range it {
					ps = append(ps, jsonStr(gn[j])+":"+jsonStr(v))
				}
				its = append(its, "{"+strings.Join(ps, ",")+"}")
			}
			parts = append(parts, `"items":[`+strings.Join(its, ",")+"]")
		}
		if nl {
			return "{\n" + strings.Join(parts, ",\n") + "\n}"
		}
		return "{" + strings.Join(parts, ",") + "}"
	}
	w.Prefix = `{"hdr":{"h0":` + jsonStr(Text(t, sh.Charset, 6)) + `},"recs":[`
	w.Sep = ","
	if nl {
		w.Sep = ",\n"
	}
	w.Suffix = "]}"
	if ndjson {
		w.Prefix, w.Sep, w.Suffix = "", "\n", "\n"
	}
	if topArr {
		w.Prefix, w.Suffix = "[", "]"
		if nl {
			w.Prefix, w.Suffix = "[\n", "\n]\n"
		}
	}
	if grouped {
		w.Prefix = `{"hdr":{"h0":` + jsonStr(Text(t, sh.Charset, 6)) + `},"grps":[{"k":"A","recs":[`
		if groupReopen {
			w.Sep = `]},` + strings.TrimPrefix(w.Sep, ",") + `{"k":"A","recs":[`
		}
		w.Suffix = "]}"
		if groupPred {
			w.Suffix += `,{"k":"B","recs":[{"F0":"zz","F1":"1"}]}`
		}
		w.Suffix += "]}"
	}
	drawRecs(t, w, sh, o)
	if MaybeScalarOutput(t, decls, m, o) {
		w.SetTag("scalar-output", "1")
	}
	w.Schema = BuildSchema("json", enc, nil, decls)
	w.UsesJS, w.Ext = js || w.UsesJS, ext
	w.Name = fmt.Sprintf("gen:json(fields=%d,items=%d,recs=%d)", sh.NFields, sh.NItemFields, len(w.LRecs))
	w.CanDup = true
	finish(w, enc, bom)
	return w
}

// IsDigits: s is a non-empty run of ASCII digits.
func IsDigits(s string) bool { return isDigits(s) }

func isDigits(s string) bool {
	if s == "" {
		return false
	}
	for _, c := range s {
		if c < '0' || c > '9' {
			return false
		}
	}
	return true
}
