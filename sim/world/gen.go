package world

import "verif/sim/tape"

// GenOpts restricts generation.
type GenOpts struct {
	Formats          []string
	NoJS             bool
	Encodings        bool
	MinRecs          int
	MaxRecs          int
	Family           string // special scenario family ("" = general)
	NoSiblingContext bool   // no non-target elements between records (they are legitimately retained)
	OwnDataOnly      bool   // the schema addresses only the target record's own data
	Probe            bool   // schemas call the harness custom function verif_probe (needs run.ProbeExtension)
	NoBadRows        bool   // no malformed rows (old csv): every logical record yields exactly one result of its own
	Pathological     bool   // declarations may use xpaths the xpath engine does not come to an end with by itself (C03 only: each evaluation costs a million steps)
	NumericFilter    bool   // the FINAL_OUTPUT target filter compares a field with a number (own scenario family: known finding)
	UnmatchedTrailer bool   // old fixed-length, by_header_footer: a last line that no envelope declares may follow the trailer (own scenario family of an open known finding; C16 only)
	TwoFilters       bool   // xml/json: the target xpath may carry two filters on its last step (own scenario family of an open known finding; C17 only)
}

// Generator produces a world from the tape.
type Generator func(t *tape.Tape, o GenOpts) *World

var generators = map[string]Generator{}
var genOrder []string

func registerGen(format string, g Generator) {
	generators[format] = g
	genOrder = append(genOrder, format)
}

// HaveGenerators reports whether any generator is registered.
func HaveGenerators() bool { return len(genOrder) > 0 }

// Generate draws a format and generates a world.
func Generate(t *tape.Tape, o GenOpts) *World {
	var cands []string
	for _, f := range genOrder {
		if len(o.Formats) == 0 || containsStr(o.Formats, f) {
			cands = append(cands, f)
		}
	}
	if len(cands) == 0 {
		panic("harness: no generator for requested formats")
	}
	f := cands[t.Intn("gen.format", len(cands))]
	t.Begin("gen." + f)
	defer t.End()
	w := generators[f](t, o)
	w.Generated = true
	if w.JSPoisonIdx > 0 && len(w.LRecs) > 0 && len(w.RecTexts) == len(w.LRecs) && w.Render != nil && !o.OwnDataOnly && t.Chance("gen.boom-record", 1, 3) {
		// one record makes the "kjs" script throw: a per-record failure raised inside the javascript runtime
		k := t.Intn("gen.boom-record.idx", len(w.LRecs))
		w.LRecs[k].Vals[w.JSPoisonIdx-1] = BoomValue
		w.RecTexts[k] = w.Render(w.LRecs[k])
		w.Assemble()
		w.SetTag("js.record-makes-script-throw", "1")
	}
	return w
}

func containsStr(l []string, s string) bool {
	for _, x := range l {
		if x == s {
			return true
		}
	}
	return false
}
