package world

import (
	"encoding/json"
	"fmt"
	"strings"

	"verif/sim/tape"
)

// ---------- values ----------

var asciiAlpha = []string{"a", "b", "c", "x", "y", "z", "A", "Q", "Z", "0", "1", "7", " ", " ", "-", "_", ".", "a", "b", "x", "\x7f"}
var latin1 = []string{"é", "ß", "ü", "ø", "Ñ", "ÿ", "¡"}
var wide = []string{"€", "漢", "字", "😀", "Ω", "ž"}

// text fragments that look like escapes of the notations data passes through on its way out (JSON
// string escapes, HTML-safe JSON escapes, XML entities, URL encoding); none contains a delimiter of
// a generated format
var escapeLike = []string{`\u0026`, `\u003c`, `\u003e`, `\u2028`, `\n`, `\\`, `\`, `&amp`, `&#38`, `&lt`, `%26`, `<b>`, `&`, `<`, `>`}

// Charset describes which runes values may contain.
type Charset struct {
	Latin1 bool // runes up to U+00FF
	Wide   bool // any rune
}

// Text draws a short text value.
func Text(t *tape.Tape, cs Charset, maxLen int) string {
	n := t.Intn("val.len", maxLen+1)
	var sb strings.Builder
	for i := 0; i < n; i++ {
		k := t.Weighted("val.cls", 24, 4, 4, 1)
		switch {
		case k == 3:
			sb.WriteString(escapeLike[t.Intn("val.esc", len(escapeLike))])
		case k == 1 && (cs.Latin1 || cs.Wide):
			sb.WriteString(latin1[t.Intn("val.l1", len(latin1))])
		case k == 2 && cs.Wide:
			sb.WriteString(wide[t.Intn("val.w", len(wide))])
		default:
			sb.WriteString(asciiAlpha[t.Intn("val.a", len(asciiAlpha))])
		}
	}
	return sb.String()
}

// Digits draws a small non-negative integer as text.
func Digits(t *tape.Tape) string {
	if t.Chance("val.int.odd", 1, 14) {
		// texts that strconv accepts as floats but that are not ordinary numbers (non-finite, huge,
		// hexadecimal), plus plainly non-numeric ones
		return t.Pick("val.int.oddv", "NaN", "Inf", "-Inf", "+Infinity", "1e999", "0x1p-2", "1e3", "-0", "9223372036854775808", "12abc", "")
	}
	return fmt.Sprint(t.Intn("val.int", 100000))
}

// EncodeLatin1 converts a string of runes <= U+00FF to single bytes.
func EncodeLatin1(s string) []byte {
	out := make([]byte, 0, len(s))
	for _, r := range s {
		if r > 0xFF {
			out = append(out, '?')
		} else {
			out = append(out, byte(r))
		}
	}
	return out
}

// ---------- logical records ----------

// LRec is a logical record: values of the record's fields and of its child items.
type LRec struct {
	Vals  []string
	Items [][]string
	Dup   int  // 1+index of a field whose element is emitted twice (xml/json only); 0 = none
	Short int  // number of trailing fields left out of the row (csv / csv2 single-row records only)
	Bad   bool // the row is malformed for the old csv reader (bare quote in an unquoted field: a continuable reader error)
	OtherType bool // json only: the digits field is written as the other JSON type (number <-> string) than the world's records usually are
	NS    int  // xml only: the record has a child element that declares a namespace of its own (1: as the default namespace, 2: under a further prefix); 0 = none
}

// Shape is the logical shape shared by the records of a world.
type Shape struct {
	NFields       int
	IntIdx        int // index of the field holding digits
	NItemFields   int // 0 = no child items
	ItemIntIdx    int
	Charset       Charset
	MaxVal        int
	SkipValue     string // a record whose field 0 has this value is rejected by the target filter ("" = no filter)
	BareFilter    int    // line-based formats and edi: the filter is a bare boolean expression (1: a comparison, 2: an 'and' of two)
	NumericFilter bool   // the target filter is a numeric comparison on field 1 (no record is rejected by value)
}

// DrawShape draws a record shape.
func DrawShape(t *tape.Tape, cs Charset, allowItems bool) Shape {
	s := Shape{NFields: 2 + t.Intn("shape.fields", 4), Charset: cs, MaxVal: 4 + t.Intn("shape.maxval", 9)}
	s.IntIdx = 1
	if allowItems && t.Bool("shape.items") {
		s.NItemFields = 1 + t.Intn("shape.itemfields", 3)
		s.ItemIntIdx = 0
	}
	if t.Chance("shape.filter", 1, 3) {
		s.SkipValue = "SKIP"
		if t.Chance("shape.filter.bare", 1, 4) {
			// the filter written as a bare condition ("F0 != 'SKIP'") instead of a predicate (".[F0 != 'SKIP']")
			s.BareFilter = 1 + t.Intn("shape.filter.bare.kind", 2)
		}
	}
	return s
}

// DrawRec draws a logical record of the shape.
func DrawRec(t *tape.Tape, s Shape) LRec {
	t.Begin("rec")
	defer t.End()
	r := LRec{Vals: make([]string, s.NFields)}
	for i := range r.Vals {
		if i == s.IntIdx {
			r.Vals[i] = Digits(t)
		} else {
			r.Vals[i] = Text(t, s.Charset, s.MaxVal)
		}
	}
	if s.SkipValue != "" && t.Chance("rec.skip", 1, 4) {
		r.Vals[0] = s.SkipValue
	}
	if s.NFields > 2 && t.Chance("rec.long", 1, 24) {
		// a value longer than the internal buffers of the layered readers (128, 512, 4096 bytes)
		n := []int{130, 520, 4100, 9000}[t.Intn("rec.long.n", 4)]
		r.Vals[2] = r.Vals[2] + strings.Repeat("Lo", n/2)
	}
	if s.NItemFields > 0 {
		t.Repeat("rec.item", 0, 4, 2, 3, func(int) {
			it := make([]string, s.NItemFields)
			for j := range it {
				if j == s.ItemIntIdx {
					it[j] = Digits(t)
				} else {
					it[j] = Text(t, s.Charset, s.MaxVal)
				}
			}
			r.Items = append(r.Items, it)
		})
	}
	return r
}

// ---------- transform declarations ----------

// Model tells the declaration generator which xpaths exist below a record node.
type Model struct {
	Fields   []string // xpaths (relative to the record) of single-valued text fields
	IntField string   // a field holding digits
	Item     *ItemModel
	Ctx      []string // xpaths (relative to the record) into non-target context
}

// ItemModel describes repeated child nodes of a record.
type ItemModel struct {
	XPath    string
	Fields   []string
	IntField string
}

// DeclOpts steers the declaration generator.
type DeclOpts struct {
	NoJS         bool
	OwnDataOnly  bool // never address non-target context (C10)
	Collide      bool // emphasise textually identical declarations at different positions, shared templates, xpath_dynamic
	NoExternal   bool
	Pathological bool // allow xpaths that use a boolean where a node-set belongs
	Probe        bool // sprinkle the harness custom function verif_probe (a scheduler yield point) between fields
}

type declGen struct {
	t         *tape.Tape
	m         Model
	o         DeclOpts
	templates map[string]interface{}
	usesJS    bool
	ext       map[string]string
	pool      []interface{} // declarations generated so far (for textual duplicates)
	depth     int
}

type D = map[string]interface{}

func (g *declGen) field() string { return g.m.Fields[g.t.Intn("decl.field", len(g.m.Fields))] }

func (g *declGen) flags(d D) D {
	if g.t.Chance("decl.notrim", 1, 6) {
		d["no_trim"] = true
	}
	if g.t.Chance("decl.keep", 1, 6) {
		d["keep_empty_or_null"] = true
	}
	return d
}

func cf(name string, args ...interface{}) D {
	return D{"custom_func": D{"name": name, "args": args}}
}

var jsScripts = []struct {
	src  string
	args int // number of named args a, b
}{
	{"a + '-' + b", 2},
	{"a.length", 1},
	{"a == 'x' ? 'yes' : a", 1},
	{"[a, b]", 2},
	{"({k: a, n: b.length})", 2},
	{"a.toUpperCase().substring(0, 3)", 1},
	{"parseInt(a) * 2", 1}, // NaN -> per-record failure when a is not numeric
	{"typeof b === 'undefined' ? a : a + b", 1},
	// two scripts that differ only by white space inside a string literal
	{"a + ' ' + b", 2},
	{"a + '  ' + b", 2},
	{"a + '-' +  b", 2},
	// top-level declarations: bindings that live in the runtime's global scope rather than in the call
	{"const t = a + '!'; t", 1},
	{"let u = a.length; u * 2", 1},
	{"var w; if (a.length > 3) { w = a } typeof w + '/' + a.length", 1},
	{"function f(x) { return '<' + x + '>' } f(a)", 1},
	// declarations and assignments inside nested statements: hoisted, or implicit, globals
	{"for (var i = 0; i < a.length; i++) { if (a.charAt(i) == 'x' || a.charAt(i) == 'a') { var hit = i } } typeof hit + ':' + a.length", 1},
	{"if (a.length > 3) { g9 = a.length } typeof g9 + ':' + a.length", 1},
	// a result JSON cannot express (NaN inside an array, unless the field is numeric): the record
	// fails in the very last step of a Read, the encoding of the result
	{"[parseInt(a), a.length]", 1},
}

var pairsAndTwins = [][]string{
	{"var q7 = a.length; q7", "(function() { try { q7; return 'declared' } catch (e) { return 'undeclared' } })()"},
	{"function escape(x) { return 'mine' } escape(a)", "escape('é')"},
	{"var Number = a.length; Number", "Number('7') + 1"},
	{"a + ' ' + a", "a + '  ' + a", "twins"},
	{"'<' + a + ' >'", "'<' + a + '  >'", "twins"},
}

// leaf generates a declaration that yields a scalar, evaluated at a node whose field xpaths are fs.
func (g *declGen) leaf(fs []string, intField string) D {
	pick := func() string { return fs[g.t.Intn("decl.field", len(fs))] }
	w := []int{8, 3, 2, 2, 3, 2, 2, 1, 3, 2, 2, 0, 2, 0, 1, 0}
	if !g.o.NoJS {
		w[15] = 1
	}
	if !g.o.NoJS && !g.o.OwnDataOnly && g.t.Chance("decl.cyclic", 1, 12) {
		w[13] = 3
	}
	if g.o.Probe {
		w[11] = 6
	}
	if intField == "" {
		w[12] = 0
	}
	if g.o.NoJS {
		w[8], w[9] = 0, 0
	}
	if g.o.NoExternal {
		w[3] = 0
	}
	if intField == "" {
		w[1] = 0
	}
	if g.o.OwnDataOnly || len(g.m.Ctx) == 0 {
		w[10] = 0
	}
	switch g.t.Weighted("decl.leaf", w...) {
	case 0:
		return g.flags(D{"xpath": pick()})
	case 1:
		ty := g.t.Pick("decl.type", "int", "float", "string")
		if g.t.Chance("decl.numcmp", 1, 4) {
			// a numeric comparison inside the xpath: evaluated by the xpath engine on the field's text
			return D{"xpath": intField + "[. >= 0]", "type": ty}
		}
		return D{"xpath": intField, "type": ty}
	case 2:
		return g.flags(D{"const": g.t.Pick("decl.const", "K", " padded ", "", "42")})
	case 3:
		name := g.t.Pick("decl.ext", "ext1", "ext2", "ext3", "ext3")
		g.ext["ext1"], g.ext["ext2"], g.ext["ext3"] = "E1v", " e2 padded ", "0042"
		d := g.flags(D{"external": name})
		if name == "ext3" && g.t.Bool("decl.ext.type") {
			d["type"] = g.t.Pick("decl.ext.typev", "int", "float", "string")
		}
		return d
	case 4:
		return cf("concat", D{"xpath": pick()}, D{"const": "/"}, D{"xpath": pick()})
	case 5:
		return cf(g.t.Pick("decl.case", "upper", "lower"), D{"xpath": pick()})
	case 6:
		return cf("coalesce", D{"xpath": pick()}, D{"xpath": pick()}, D{"const": "dflt"})
	case 7:
		return cf("uuidv3", D{"xpath": pick()})
	case 8:
		g.usesJS = true
		s := jsScripts[g.t.Intn("decl.js", len(jsScripts))]
		args := []interface{}{D{"const": s.src}, D{"const": "a"}, D{"xpath": pick()}}
		if s.src == "parseInt(a) * 2" && intField != "" {
			args[2] = D{"xpath": intField}
		}
		if s.args == 2 {
			args = append(args, D{"const": "b"}, D{"xpath": pick()})
		}
		return cf("javascript", args...)
	case 9:
		g.usesJS = true
		src := g.t.Pick("decl.jsctx", "Object.keys(JSON.parse(_node)).length", "JSON.stringify(JSON.parse(_node))", "_node.length")
		return cf("javascript_with_context", D{"const": src})
	case 13:
		// a script result that contains itself reaches a place that cannot use it (and has to say so):
		// a string argument, the name of a javascript argument, the value of an xpath_dynamic
		g.usesJS = true
		cycScript := "(function(){ var o = {k: a}; o.self = o; return o })()"
		if g.t.Chance("decl.cyclic.container", 1, 3) {
			// ... the same through the other containers a script can return
			cycScript = g.t.Pick("decl.cyclic.container.kind",
				"(function(){ var r = [a]; r[1] = r; return r })()",
				"(function(){ var m = new Map(); m.set('k', a); m.set('self', m); return m })()",
				"(function(){ var s = new Set(); s.add(a); s.add(s); return s })()",
				"(function(){ var m = new Map(); m.set(m, a); return m })()",
				"(function(){ var m = new Map(); var s = new Set(); s.add(m); m.set('s', s); return m })()",
				"(function(){ var m = new Map(); m.set('o', {k: a, back: m}); return m })()")
		}
		cyc := cf("javascript", D{"const": cycScript}, D{"const": "a"}, D{"xpath": pick()})
		switch g.t.Intn("decl.cyclic.where", 11) {
		case 9, 10:
			// ... or is the value of the declaration itself
			return cyc
		case 7:
			// a script that leaves an accessor named like its own argument on the global object, invisible
			// to an enumeration, impossible to delete: the NEXT run of the script meets it while its
			// arguments are being set up
			return cf("javascript", D{"const": "Object.defineProperty(this, 'a', {get: function() { throw new Error('trap') }, enumerable: false, configurable: false}); 1"}, D{"const": "a"}, D{"xpath": pick()})
		case 8:
			// a script result that is neither an array nor an object for Go (a Map is exported as a
			// slice of pairs), handed on to another script that modifies it
			mapResult := cf("javascript", D{"const": "new Map([['k', a], ['l', a]])"}, D{"const": "a"}, D{"xpath": pick()})
			return cf("javascript", D{"const": "m[0].push('x'); m.length"}, D{"const": "m"}, mapResult)
		case 0:
			return cf("upper", cyc)
		case 1:
			return cf("javascript", D{"const": "1 + 1"}, cyc, D{"const": "v"})
		case 3:
			// ... or is handed on to another script as an argument value
			return cf("javascript", D{"const": "typeof v"}, D{"const": "v"}, cyc)
		case 4:
			// a script result that is a function, handed on to another script (a shared helper): it
			// belongs to the runtime that made it
			helper := cf("javascript", D{"const": "(function(x) { return x + '!' })"})
			return cf("javascript", D{"const": "h(a)"}, D{"const": "h"}, helper, D{"const": "a"}, D{"xpath": pick()})
		case 5:
			// a script that leaves something on the global object that cannot be removed, read or reset
			return cf("javascript", D{"const": "Object.defineProperty(this, 'trapg', {get: function() { throw new Error('trap') }, enumerable: true, configurable: false}); a.length"}, D{"const": "a"}, D{"xpath": pick()})
		case 6:
			// what is thrown cannot be turned into a text, not even by those who catch it
			return cf("javascript", D{"const": "throw { toString: function() { throw this } }"}, D{"const": "a"}, D{"xpath": pick()})
		default:
			return D{"xpath_dynamic": cyc}
		}
	case 14:
		// an xpath that computes a boolean rather than selecting nodes: a condition on the cursor node
		f := pick()
		x := g.t.Pick("decl.boolxpath", f+" != ''", f+" = ''", f+" != '' or "+f+" = ''", "1 < 2", "string-length("+f+") > 0 and "+f+" != 'Q'",
			"numeric-self", "numeric-self", "bool-as-nodeset")
		switch x {
		case "numeric-self":
			// a condition on the cursor node's own (numeric) value: it cannot even be evaluated on a node without one
			if intField == "" {
				x = ". != '' and . != 'Q'"
				break
			}
			return D{"xpath": intField, "object": D{"in_range": D{"xpath": ". >= 0 and . <= 999999999999999999999"}, "odd": D{"xpath": "substring(., 1, 1) = '5' or . = 'n/a'"}}}
		case "bool-as-nodeset":
			// a boolean used where a node-set belongs: the xpath engine does not come to an end with these by itself
			if !g.o.Pathological || !g.t.Chance("decl.boolxpath.pathological", 1, 4) {
				x = f + " != 'Q'"
				break
			}
			x = g.t.Pick("decl.boolxpath.pathological.which", "("+f+" != 'Q')[1]", "("+f+" != 'Q') | ("+f+" = 'Q')",
				// ... and the same handed to a function that consumes a node-set, with comparisons that hold
				// on any node, also one without children (what is asked about an xpath before it is used
				// is asked on such nodes)
				"count((1=1)[1]) > 0", "count(("+f+" != 'Q')[1]) >= 0", "sum((. = .)[1]) >= 0", "boolean((1=1) | (2=2))", "count((. = .) | (1=1)) > 0")
		}
		return cf("coalesce", D{"xpath": x, "custom_func": D{"name": "concat", "args": []interface{}{D{"const": "yes"}}}}, D{"const": "no"})
	case 15:
		// two scripts evaluated one after the other: the first declares a global (a variable, a
		// function or variable named like a built-in), the second finds out whether it is there
		g.usesJS = true
		pairs := pairsAndTwins
		pr := pairs[g.t.Intn("decl.jspair", len(pairs))]
		if len(pr) == 3 {
			// two scripts that differ only by white space inside a string literal: two programs
			f := pick()
			return cf("concat", cf("javascript", D{"const": pr[0]}, D{"const": "a"}, D{"xpath": f}), D{"const": "|"},
				cf("javascript", D{"const": pr[1]}, D{"const": "a"}, D{"xpath": f}))
		}
		return cf("concat", cf("javascript", D{"const": pr[0]}, D{"const": "a"}, D{"xpath": pick()}), D{"const": "|"},
			cf("javascript", D{"const": pr[1]}), D{"const": "|"}, cf("javascript", D{"const": pr[1]}))
	case 11:
		return cf("verif_probe", D{"xpath": pick()})
	case 12:
		// a date-time function that looks a time zone up in the process-wide location cache; some
		// names are spelt in a case the zone database does not know
		tz := g.t.Pick("decl.tz", "", "UTC", "America/New_York", "america/new_york", "Asia/Tokyo", "ASIA/TOKYO", "Europe/Berlin")
		if which := g.t.Weighted("decl.dt.func", 3, 2, 2, 1); which > 0 {
			// the functions that *parse* a date-time: text, layout, "the layout carries a zone" flag and
			// the zones to read it in and to show it in are all arguments; every one of them counts
			zone := func(l string) string {
				return g.t.Pick(l, "", "", "UTC", "America/New_York", "america/new_york", "Asia/Tokyo", "ASIA/TOKYO")
			}
			switch which {
			case 1:
				return cf("dateTimeLayoutToRFC3339", D{"const": g.t.Pick("decl.dt.value", "2021-02-08 10:00:00", "2021-12-31 23:59:59")},
					D{"const": "2006-01-02 15:04:05"}, D{"const": g.t.Pick("decl.dt.layouttz", "false", "true")},
					D{"const": zone("decl.dt.from")}, D{"const": zone("decl.dt.to")})
			case 2:
				return cf("dateTimeToRFC3339", D{"const": g.t.Pick("decl.dt.smart", "2021-02-08 10:00:00", "2021-02-08T10:00:00Z", "2021-02-08T10:00:00-05:00", "02/08/2021 10:00 PM")},
					D{"const": zone("decl.dt.from")}, D{"const": zone("decl.dt.to")})
			default:
				return cf("dateTimeToEpoch", D{"const": g.t.Pick("decl.dt.smart", "2021-02-08 10:00:00", "2021-02-08T10:00:00Z", "2021-02-08T10:00:00-05:00")},
					D{"const": zone("decl.dt.from")}, D{"const": g.t.Pick("decl.epochunit", "SECOND", "MILLISECOND")})
			}
		}
		d := cf("epochToDateTimeRFC3339", D{"xpath": intField}, D{"const": g.t.Pick("decl.epochunit", "SECOND", "MILLISECOND")})
		if tz != "" {
			d["custom_func"].(D)["args"] = append(d["custom_func"].(D)["args"].([]interface{}), D{"const": tz})
		}
		return d
	default:
		return D{"xpath": g.m.Ctx[g.t.Intn("decl.ctx", len(g.m.Ctx))]}
	}
}

// dupOrNew returns either a fresh leaf or a textual duplicate of an earlier declaration.
func (g *declGen) dupOrNew(fs []string, intField string) interface{} {
	p := 1
	if g.o.Collide {
		p = 3
	}
	if len(g.pool) > 0 && g.t.Chance("decl.dup", p, 8) {
		return deepCopy(g.pool[g.t.Intn("decl.dup.idx", len(g.pool))])
	}
	d := g.leaf(fs, intField)
	g.pool = append(g.pool, d)
	return d
}

func deepCopy(v interface{}) interface{} {
	b, _ := json.Marshal(v)
	var out interface{}
	_ = json.Unmarshal(b, &out)
	return out
}

// object generates an object declaration body evaluated at a record (or item) node.
func (g *declGen) object(fs []string, intField string, item *ItemModel) D {
	g.depth++
	defer func() { g.depth-- }()
	obj := D{}
	if g.o.Collide && g.t.Chance("decl.collide.pair", 1, 2) {
		// the same declaration text once as an array child (its xpath is consumed by the array) and
		// once as an object child at a cursor the array also visited
		x := g.t.Pick("decl.collide.xpath", "*", "../*", ".", fs[0])
		d := D{"xpath": x}
		if g.t.Bool("decl.collide.upper") {
			d = D{"xpath": x, "custom_func": D{"name": "upper", "args": []interface{}{D{"xpath": "."}}}}
		}
		obj["kc_arr"] = D{"array": []interface{}{deepCopy(d)}}
		cur := g.t.Pick("decl.collide.cursor", ".", fs[0], fs[len(fs)-1])
		obj["kc_obj"] = D{"xpath": cur, "object": D{"c": deepCopy(d)}}
	}
	if g.o.Collide && !g.o.NoJS && g.depth == 1 && g.t.Chance("decl.collide.argedit", 1, 3) {
		// one template evaluated twice on the same node: once as output, once as the argument of a
		// script that edits its argument in place (sort/reverse/assignment): the edit must stay in the call
		g.usesJS = true
		tn := "tplarg"
		src := "s.reverse(); s.length"
		if g.t.Bool("decl.collide.argedit.obj") {
			g.templates[tn] = D{"object": D{"v": D{"xpath": fs[0]}, "c": D{"const": "tc"}, "m": D{"const": "tm"}, "a": D{"const": "ta"}, "z": D{"xpath": fs[len(fs)-1], "keep_empty_or_null": true}}}
			src = "s.c = 'edited'; s.extra = 1; s.v"
			if g.t.Bool("decl.collide.argedit.enumerate") {
				// ... or only looks at it: the keys of an object argument, in the order the script sees them
				src = "Object.keys(s).join(',') + '|' + JSON.stringify(s)"
			}
		} else {
			g.templates[tn] = D{"array": []interface{}{D{"xpath": fs[0]}, D{"const": "z9"}, D{"xpath": fs[len(fs)-1]}}}
		}
		js := cf("javascript", D{"const": src}, D{"const": "s"}, D{"template": tn})
		if g.t.Chance("decl.collide.argedit.twice", 1, 3) {
			// the same declaration as two arguments of one call: two values, not one
			src2 := "s.push('extra'); s.length + '/' + t.length"
			if _, isObj := g.templates[tn].(D)["object"]; isObj {
				src2 = "s.c = 'edited'; s.c + '/' + t.c"
			}
			js = cf("javascript", D{"const": src2}, D{"const": "s"}, D{"template": tn}, D{"const": "t"}, D{"template": tn})
		}
		if g.t.Chance("decl.collide.argedit.members", 1, 4) {
			// ... or as two members of one object argument
			tn2 := "tplarg2"
			member := func() D { return D{"array": []interface{}{D{"xpath": fs[0]}, D{"const": "z9"}}} }
			if g.t.Chance("decl.collide.argedit.members.map", 1, 3) {
				// ... whose values are containers of another Go type than the usual two (a javascript Map
				// is exported as a slice of pairs)
				member = func() D {
					return cf("javascript", D{"const": "new Map([['k', v], ['l', 'z9']])"}, D{"const": "v"}, D{"xpath": fs[0]})
				}
			}
			g.templates[tn2] = D{"object": D{"a": member(), "b": member()}}
			src3 := "o.a.push('extra'); o.a.length + '/' + o.b.length"
			if g.t.Bool("decl.collide.argedit.members.three") {
				// ... or three: the first evaluation fills the cache, the second and the third are both
				// served from it - and still have to be two values
				g.templates[tn2] = D{"object": D{"a": member(), "b": member(), "c": member()}}
				src3 = "o.b.push('extra'); o.a.length + '/' + o.b.length + '/' + o.c.length"
			}
			js = cf("javascript", D{"const": src3}, D{"const": "o"}, D{"template": tn2})
		}
		js["keep_empty_or_null"] = true
		if g.t.Bool("decl.collide.argedit.order") {
			obj["ka_out"], obj["kb_js"] = D{"template": tn}, js
		} else {
			obj["kb_out"], obj["ka_js"] = D{"template": tn}, js
		}
	}
	if g.o.Collide && !g.o.NoJS && g.depth == 1 && len(fs) >= 2 && g.t.Chance("decl.collide.dynarray", 1, 4) {
		// the same array declaration once as an output field and once as the argument of a function
		// that computes an xpath_dynamic (declarations below an xpath_dynamic are a world of their own
		// for the validator)
		g.usesJS = true
		arr := func() D { return D{"array": []interface{}{D{"xpath": fs[0]}}} }
		obj["kd_list"] = arr()
		obj["kd_dyn"] = D{"xpath_dynamic": cf("javascript", D{"const": "l && l.length > 0 ? '" + fs[0] + "' : '" + fs[1] + "'"}, D{"const": "l"}, arr()), "keep_empty_or_null": true}
		if g.t.Bool("decl.collide.dynarray.order") {
			obj["ka_list"] = obj["kd_list"]
			delete(obj, "kd_list")
		}
	}
	if g.o.Collide && g.t.Chance("decl.collide.empty", 1, 4) {
		// an empty object / array declaration next to the field declaration it differs from only by that
		x := fs[g.t.Intn("decl.field", len(fs))]
		obj["ke_field"] = D{"xpath": x, "keep_empty_or_null": true}
		obj["ke_object"] = D{"xpath": x, "object": D{}, "keep_empty_or_null": true}
		obj["ke_text"] = D{"keep_empty_or_null": true}
		obj["ke_array"] = D{"array": []interface{}{}, "keep_empty_or_null": true}
	}
	n := 2 + g.t.Intn("decl.n", 5)
	for i := 0; i < n; i++ {
		key := fmt.Sprintf("k%d", i)
		w := []int{10, 2, 3, 2, 2, 1}
		if g.depth > 2 {
			w[1], w[2] = 0, 0
		}
		if item == nil {
			w[2] = 1
		}
		switch g.t.Weighted("decl.kind", w...) {
		case 0:
			obj[key] = g.dupOrNew(fs, intField)
		case 1: // nested object at the same cursor
			d := D{"object": g.object(fs, intField, nil)}
			if g.t.Bool("decl.obj.xpath") {
				d["xpath"] = "."
			}
			obj[key] = d
		case 2: // array
			obj[key] = g.array(fs, intField, item)
		case 3: // template reference
			obj[key] = g.templateRef(fs, intField)
		case 4: // xpath_dynamic
			f := fs[g.t.Intn("decl.field", len(fs))]
			var dyn D
			switch k := g.t.Weighted("decl.dyn.kind", 2, 2, 2); {
			case k == 0:
				dyn = cf("concat", D{"const": "./"}, D{"const": f})
			case k == 2 && !g.o.NoJS && intField != "" && g.depth == 1:
				// an xpath computed from the record's own content, with constant arguments only:
				// it differs from record to record although nothing in its declaration is an xpath
				g.usesJS = true
				f2 := fs[g.t.Intn("decl.field", len(fs))]
				src := "(parseInt(JSON.parse(_node)['" + intField + "']) % 2 == 0) ? '" + f + "' : '" + f2 + "'"
				dyn = cf("javascript_with_context", D{"const": src})
			default:
				dyn = D{"const": f}
			}
			obj[key] = D{"xpath_dynamic": dyn}
		case 5: // copy
			if item != nil && g.t.Bool("decl.copy.item") {
				obj[key] = D{"array": []interface{}{D{"xpath": item.XPath, "custom_func": D{"name": "copy"}}}}
			} else {
				obj[key] = D{"xpath": ".", "custom_func": D{"name": "copy"}}
			}
		}
	}
	return obj
}

func (g *declGen) array(fs []string, intField string, item *ItemModel) D {
	var elems []interface{}
	if item != nil && g.t.Weighted("decl.arr.kind", 3, 2) == 0 {
		// one element per item, each an object over the item's fields
		inner := g.object(item.Fields, item.IntField, nil)
		elems = append(elems, D{"xpath": item.XPath, "object": inner})
		if g.t.Chance("decl.arr.second", 1, 3) {
			elems = append(elems, D{"xpath": item.XPath + "/" + item.Fields[0]})
		}
	} else {
		k := 1 + g.t.Intn("decl.arr.n", 3)
		for i := 0; i < k; i++ {
			// array children consume their xpath through the array: a textual duplicate of an
			// object child under an array is exactly the colliding pattern
			elems = append(elems, g.dupOrNew(fs, intField))
		}
	}
	return D{"array": elems}
}

func (g *declGen) templateRef(fs []string, intField string) D {
	name := fmt.Sprintf("tpl%d", g.t.Intn("decl.tpl", 3))
	if name == "tpl2" {
		// a template that anchors itself through xpath_dynamic: referenced without an xpath
		if _, ok := g.templates[name]; !ok {
			f := g.m.Fields[g.t.Intn("decl.field", len(g.m.Fields))]
			g.templates[name] = D{"xpath_dynamic": D{"const": f}, "custom_func": D{"name": "lower", "args": []interface{}{D{"xpath": "."}}}}
		}
		if len(fs) > 0 && fs[0] == g.m.Fields[0] {
			return D{"template": name}
		}
		name = "tpl0"
	}
	if _, ok := g.templates[name]; !ok {
		// a template without its own xpath, so that references may supply one
		var body D
		switch g.t.Weighted("decl.tpl.kind", 2, 2, 1) {
		case 0:
			body = cf("upper", D{"xpath": "."})
		case 1:
			body = cf("concat", D{"const": "<"}, D{"xpath": "."}, D{"const": ">"})
		default:
			body = D{"object": D{"v": D{"xpath": "."}, "c": D{"const": "tc"}}}
		}
		g.templates[name] = body
	}
	return D{"xpath": fs[g.t.Intn("decl.field", len(fs))], "template": name}
}

// GenDecls generates transform_declarations (FINAL_OUTPUT without its xpath, plus templates).
func GenDecls(t *tape.Tape, m Model, o DeclOpts) (decls D, usesJS bool, ext map[string]string) {
	t.Begin("decls")
	defer t.End()
	g := &declGen{t: t, m: m, o: o, templates: map[string]interface{}{}, ext: map[string]string{}}
	final := D{"object": g.object(m.Fields, m.IntField, m.Item)}
	decls = D{"FINAL_OUTPUT": final}
	for k, v := range g.templates {
		decls[k] = v
	}
	return decls, g.usesJS, g.ext
}

// BuildSchema marshals a schema.
func BuildSchema(format string, encoding string, fileDecl interface{}, decls D) []byte {
	ps := D{"version": "omni.2.1", "file_format_type": format}
	if encoding != "" {
		ps["encoding"] = encoding
	}
	s := D{"parser_settings": ps, "transform_declarations": decls}
	if fileDecl != nil {
		s["file_declaration"] = fileDecl
	}
	b, err := json.MarshalIndent(s, "", " ")
	if err != nil {
		panic("harness: " + err.Error())
	}
	return b
}

// drawEncoding picks the stream encoding of a generated world.
func drawEncoding(t *tape.Tape, allow bool) (enc string, cs Charset, bom bool) {
	if !allow {
		return "", Charset{Latin1: true, Wide: true}, false
	}
	switch t.Weighted("gen.enc", 6, 2, 1, 1) {
	case 1:
		return "", Charset{Latin1: true, Wide: true}, true
	case 2:
		return "iso-8859-1", Charset{Latin1: true}, false
	case 3:
		return "windows-1252", Charset{Latin1: true}, false
	}
	return "", Charset{Latin1: true, Wide: true}, false
}

// finish assembles the world's input in the chosen encoding (with optional BOM).
func finish(w *World, enc string, withBOM bool) {
	if enc != "" {
		w.SetTag("encoding", enc)
	}
	w.encLatin1 = enc != ""
	w.bom = withBOM
	if withBOM {
		w.SetTag("bom", "1")
	}
	w.Assemble()
}

// MaybeScalarOutput occasionally replaces FINAL_OUTPUT by a declaration that yields a plain
// string (a field, or the whole record's text), keeping its target xpath.
func MaybeScalarOutput(t *tape.Tape, decls D, m Model, o GenOpts) bool {
	if o.OwnDataOnly || o.Family != "" || !t.Chance("gen.scalar-output", 1, 12) {
		return false
	}
	fo := decls["FINAL_OUTPUT"].(D)
	repl := D{}
	if x, ok := fo["xpath"]; ok {
		repl["xpath"] = x
	}
	switch t.Weighted("gen.scalar-output.kind", 2, 1) {
	case 0:
		repl["custom_func"] = D{"name": "concat", "args": []interface{}{D{"xpath": m.Fields[0]}, D{"const": "|"}, D{"xpath": m.Fields[len(m.Fields)-1]}}}
	default:
		repl["no_trim"] = true // field: the record's own text
	}
	decls["FINAL_OUTPUT"] = repl
	return true
}
