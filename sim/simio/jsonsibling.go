package simio

import (
	"encoding/json"
	"fmt"
	"strings"

	"verif/sim/tape"
)

// SiblingJSON returns a near-copy of a JSON document (a schema): exactly one stored scalar is
// replaced by a *sibling* value - a flag flipped ("true" <-> "false", true <-> false), a string in
// another letter case, with a blank added inside it, or replaced by the value another member of the
// same name holds elsewhere in the document, a number moved by one. Unlike DamageJSON the result
// is meant to be accepted and to mean nearly the same: it is the schema a process-wide cache with a
// lossy key confuses with the original (C15's histories run it before the probe).
func SiblingJSON(t *tape.Tape, data []byte) (out []byte, desc string) {
	t.Begin("jsonsibling")
	defer t.End()
	var root interface{}
	if err := json.Unmarshal(data, &root); err != nil {
		return data, ""
	}
	type slot struct {
		path   string
		parent interface{}
		key    string
		idx    int
	}
	var slots []slot
	byKey := map[string][]string{} // member name -> string values stored under that name anywhere
	var walk func(v interface{}, path string, s *slot)
	walk = func(v interface{}, path string, s *slot) {
		switch x := v.(type) {
		case map[string]interface{}:
			if nm, _ := x["name"].(string); strings.HasPrefix(nm, "javascript") {
				// a javascript declaration is left as it is: the generated scripts are written to stay
				// inside what the checks claim (e.g. what a script defines under the name of its own
				// argument is removed with the argument); with an argument renamed or the script text
				// changed they would not
				return
			}
			keys := make([]string, 0, len(x))
			for k := range x {
				keys = append(keys, k)
			}
			sortStrings(keys)
			for _, k := range keys {
				walk(x[k], path+"."+k, &slot{path: path + "." + k, parent: x, key: k})
			}
		case []interface{}:
			for i := range x {
				walk(x[i], fmt.Sprintf("%s[%d]", path, i), &slot{path: fmt.Sprintf("%s[%d]", path, i), parent: x, idx: i})
			}
		case string:
			if s != nil {
				slots = append(slots, *s)
				byKey[s.key] = append(byKey[s.key], x)
			}
		case bool, float64:
			if s != nil {
				slots = append(slots, *s)
			}
		}
	}
	walk(root, "$", nil)
	if len(slots) == 0 {
		return data, ""
	}
	get := func(s slot) interface{} {
		if m, ok := s.parent.(map[string]interface{}); ok {
			return m[s.key]
		}
		return s.parent.([]interface{})[s.idx]
	}
	set := func(s slot, v interface{}) {
		if m, ok := s.parent.(map[string]interface{}); ok {
			m[s.key] = v
		} else {
			s.parent.([]interface{})[s.idx] = v
		}
	}
	// prefer the values declarations are made of ("const", "xpath", "name", "type", flags) over
	// parser settings, which rarely survive a change
	var pref []slot
	for _, s := range slots {
		if strings.Contains(s.path, "transform_declarations") {
			pref = append(pref, s)
		}
	}
	if len(pref) > 0 && t.Chance("js.pref", 3, 4) {
		slots = pref
	}
	// flags first: they are few and they are what a lossy key leaves out
	var flags []slot
	for _, s := range slots {
		switch v := get(s).(type) {
		case bool:
			flags = append(flags, s)
		case string:
			if v == "true" || v == "false" {
				flags = append(flags, s)
			}
		}
	}
	a := slots[t.Intn("js.slot", len(slots))]
	if len(flags) > 0 && t.Chance("js.flag", 1, 3) {
		a = flags[t.Intn("js.flagslot", len(flags))]
	}
	switch v := get(a).(type) {
	case bool:
		set(a, !v)
		desc = fmt.Sprintf("%s: %v -> %v", a.path, v, !v)
	case float64:
		nv := v + float64(1-2*t.Intn("js.numdir", 2))
		set(a, nv)
		desc = fmt.Sprintf("%s: %v -> %v", a.path, v, nv)
	case string:
		nv := v
		switch {
		case v == "true":
			nv = "false"
		case v == "false":
			nv = "true"
		default:
			switch t.Intn("js.strhow", 4) {
			case 0:
				nv = strings.ToLower(v)
				if nv == v {
					nv = strings.ToUpper(v)
				}
			case 1:
				// a blank added inside the text (after its first blank, or at its end)
				if i := strings.IndexByte(v, ' '); i >= 0 {
					nv = v[:i] + " " + v[i:]
				} else {
					nv = v + " "
				}
			default:
				// what another member of the same name holds elsewhere
				if alt := byKey[a.key]; len(alt) > 1 {
					nv = alt[t.Intn("js.alt", len(alt))]
				}
			}
		}
		if nv == v {
			return data, ""
		}
		set(a, nv)
		desc = fmt.Sprintf("%s: %q -> %q", a.path, clipStr(v, 60), clipStr(nv, 60))
	}
	b, err := json.MarshalIndent(root, "", " ")
	if err != nil {
		return data, ""
	}
	return b, desc
}

func clipStr(s string, n int) string {
	if len(s) > n {
		return s[:n] + "..."
	}
	return s
}
