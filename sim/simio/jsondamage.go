package simio

import (
	"bytes"
	"encoding/json"
	"fmt"

	"verif/sim/tape"
)

type jsonSlot struct {
	path   string
	parent interface{} // map[string]interface{} or []interface{}
	key    string
	idx    int
	holder *[]interface{} // for array parents: pointer to the slice inside its own parent
}

// DamageJSON applies 1-2 structure-level storage faults to a JSON document (a schema): one
// stored value overwritten by a copy of another (misdirected write), a value lost, a scalar
// replaced. Unlike byte-level damage the result is always well-formed JSON, so it reaches the
// semantic validation and the run-time code behind the JSON-schema validation.
func DamageJSON(t *tape.Tape, data []byte) (out []byte, desc []string, kinds []string) {
	t.Begin("jsondamage")
	defer t.End()
	var root interface{}
	if err := json.Unmarshal(data, &root); err != nil {
		return data, nil, nil
	}
	n := 1 + t.Weighted("jd.count", 3, 1)
	var tailMembers []string // members appended after all others of the top-level object
	for f := 0; f < n; f++ {
		t.Begin("jd.one")
		var slots []jsonSlot
		var strs []string
		var walk func(v interface{}, path string)
		walk = func(v interface{}, path string) {
			switch x := v.(type) {
			case map[string]interface{}:
				keys := make([]string, 0, len(x))
				for k := range x {
					keys = append(keys, k)
				}
				sortStrings(keys)
				for _, k := range keys {
					slots = append(slots, jsonSlot{path: path + "." + k, parent: x, key: k})
					walk(x[k], path+"."+k)
				}
			case []interface{}:
				for i := range x {
					slots = append(slots, jsonSlot{path: fmt.Sprintf("%s[%d]", path, i), parent: x, idx: i})
					walk(x[i], fmt.Sprintf("%s[%d]", path, i))
				}
			case string:
				strs = append(strs, x)
			}
		}
		walk(root, "$")
		if len(slots) == 0 {
			t.End()
			break
		}
		get := func(s jsonSlot) interface{} {
			if m, ok := s.parent.(map[string]interface{}); ok {
				return m[s.key]
			}
			return s.parent.([]interface{})[s.idx]
		}
		set := func(s jsonSlot, v interface{}) {
			if m, ok := s.parent.(map[string]interface{}); ok {
				m[s.key] = v
			} else {
				s.parent.([]interface{})[s.idx] = v
			}
		}
		a := slots[t.Intn("jd.a", len(slots))]
		op := t.Weighted("jd.op", 5, 3, 4, 2, 1, 1, 3, 3, 2, 3)
		switch op {
		case 0: // misdirected write: a := copy of b
			b := slots[t.Intn("jd.b", len(slots))]
			var cp interface{}
			raw, _ := json.Marshal(get(b))
			_ = json.Unmarshal(raw, &cp)
			set(a, cp)
			desc = append(desc, fmt.Sprintf("%s overwritten by a copy of %s", a.path, b.path))
			kinds = append(kinds, "json-misdirected-write")
		case 1: // lost value: delete an object member
			if m, ok := a.parent.(map[string]interface{}); ok {
				delete(m, a.key)
				desc = append(desc, fmt.Sprintf("%s deleted", a.path))
				kinds = append(kinds, "json-member-lost")
			}
		case 2: // scalar replaced
			if t.Bool("jd.short") {
				// short strings are usually delimiters, release characters, type names: aim at them half of the time
				var short []jsonSlot
				for _, sl := range slots {
					if sv, ok := get(sl).(string); ok && len(sv) <= 3 {
						short = append(short, sl)
					}
				}
				if len(short) > 0 {
					a = short[t.Intn("jd.shortslot", len(short))]
				}
			}
			if t.Chance("jd.number", 1, 3) {
				// numbers (positions, lengths, occurrence bounds, indices) are few among the stored values: aim at them
				var nums []jsonSlot
				for _, sl := range slots {
					if _, ok := get(sl).(float64); ok {
						nums = append(nums, sl)
					}
				}
				if len(nums) > 0 {
					a = nums[t.Intn("jd.numslot", len(nums))]
				}
			}
			if sv, ok := get(a).(string); ok && len(sv) <= 3 && t.Bool("jd.short.weird") {
				// a delimiter-like value replaced by another delimiter-like value
				shortWeird := []string{"", "\n", "\r", "\"", " ", "\x00", "ab", "é", "*", "|", "\r\n", "", "", ""} // the empty string more often than the rest
				v := shortWeird[t.Intn("jd.shortweird", len(shortWeird))]
				set(a, v)
				desc = append(desc, fmt.Sprintf("%s := %q", a.path, v))
				kinds = append(kinds, "json-string-replaced")
				break
			}
			switch get(a).(type) {
			case string:
				weird := []string{"", "*", ".", "..", "../..", "[", "(?", "\\", "//*", "0", "-1", " ", "a|b", "FINAL_OUTPUT", "int", "javascript",
					"\n", "\r", "\"", "\ufffd", "\x00", "^", "$", "ab", "é"}
				var v string
				if len(strs) > 0 && t.Bool("jd.str.other") {
					v = strs[t.Intn("jd.str", len(strs))]
				} else {
					v = weird[t.Intn("jd.weird", len(weird))]
				}
				set(a, v)
				desc = append(desc, fmt.Sprintf("%s := %q", a.path, v))
				kinds = append(kinds, "json-string-replaced")
			case float64:
				if t.Bool("jd.num.small") {
					// occurrence bounds, row counts, indices: the small values are the ones with a meaning of their own
					v := []interface{}{int64(0), int64(1), int64(-1), int64(2)}[t.Intn("jd.num.smallv", 4)]
					set(a, v)
					desc = append(desc, fmt.Sprintf("%s := %v", a.path, v))
					kinds = append(kinds, "json-number-replaced")
					break
				}
				// boundary numbers; integers are stored as int64 so that they are written without an exponent
				nums := []interface{}{int64(0), int64(-1), int64(1), int64(2), int64(3), int64(1) << 31, int64(1)<<31 - 1, int64(1) << 32,
					int64(1) << 62, int64(9223372036854775807), int64(9223372036854775806), int64(-9223372036854775808), 0.5, 1e18,
					// integral values in spellings a JSON-schema "integer" accepts but Go's decoder refuses for int fields
					json.RawMessage("1.0"), json.RawMessage("2.0"), json.RawMessage("1e0"), json.RawMessage("3e0"), json.RawMessage("9223372036854775808"), json.RawMessage("1e19")}
				v := nums[t.Intn("jd.num", len(nums))]
				set(a, v)
				if rm, ok := v.(json.RawMessage); ok {
					desc = append(desc, fmt.Sprintf("%s := %s", a.path, string(rm)))
				} else {
					desc = append(desc, fmt.Sprintf("%s := %v", a.path, v))
				}
				kinds = append(kinds, "json-number-replaced")
			case bool:
				set(a, !get(a).(bool))
				desc = append(desc, fmt.Sprintf("%s flipped", a.path))
				kinds = append(kinds, "json-bool-flipped")
			}
		case 3: // type confusion: scalar <-> null / number / string
			vals := []interface{}{nil, 7.0, "7", true, []interface{}{}, map[string]interface{}{}}
			v := vals[t.Intn("jd.conf", len(vals))]
			set(a, v)
			desc = append(desc, fmt.Sprintf("%s := %v", a.path, v))
			kinds = append(kinds, "json-type-confusion")
		case 4: // member renamed to a sibling-like key
			if m, ok := a.parent.(map[string]interface{}); ok {
				names := []string{"xpath", "xpath_dynamic", "const", "external", "object", "array", "template", "custom_func", "type", "args", "name", "min", "max", "rows", "header", "footer", "is_target", "index"}
				nk := names[t.Intn("jd.rename", len(names))]
				v := m[a.key]
				delete(m, a.key)
				m[nk] = v
				desc = append(desc, fmt.Sprintf("%s renamed to %q", a.path, nk))
				kinds = append(kinds, "json-member-renamed")
			}
		case 8: // a stale, damaged copy of a top-level section written under a near-identical name (case of one letter)
			if top, ok := root.(map[string]interface{}); ok && len(top) > 0 {
				keys := make([]string, 0, len(top))
				for k := range top {
					keys = append(keys, k)
				}
				sortStrings(keys)
				k := keys[t.Intn("jd.cv.key", len(keys))]
				var cp interface{}
				raw, _ := json.Marshal(top[k])
				_ = json.Unmarshal(raw, &cp)
				// lose or null one member somewhere inside the copy
				var inner []jsonSlot
				var w2 func(v interface{}, path string)
				w2 = func(v interface{}, path string) {
					switch x := v.(type) {
					case map[string]interface{}:
						ks := make([]string, 0, len(x))
						for kk := range x {
							ks = append(ks, kk)
						}
						sortStrings(ks)
						for _, kk := range ks {
							inner = append(inner, jsonSlot{path: path + "." + kk, parent: x, key: kk})
							w2(x[kk], path+"."+kk)
						}
					case []interface{}:
						for i := range x {
							w2(x[i], fmt.Sprintf("%s[%d]", path, i))
						}
					}
				}
				w2(cp, "$")
				if len(inner) > 0 {
					sl := inner[t.Intn("jd.cv.inner", len(inner))]
					m := sl.parent.(map[string]interface{})
					switch t.Intn("jd.cv.how", 3) {
					case 0:
						delete(m, sl.key)
					case 1:
						m[sl.key] = nil
					default:
						if _, isStr := m[sl.key].(string); isStr {
							m[sl.key] = ""
						} else {
							m[sl.key] = nil
						}
					}
				}
				nk := []byte(k)
				pos := t.Intn("jd.cv.pos", len(nk))
				if nk[pos] >= 'a' && nk[pos] <= 'z' {
					nk[pos] -= 32
				} else if nk[pos] >= 'A' && nk[pos] <= 'Z' {
					nk[pos] += 32
				}
				if string(nk) != k {
					// stored AFTER the genuine section (decoders let the later of two matching keys win)
					cb, _ := json.MarshalIndent(cp, " ", " ")
					kb, _ := json.Marshal(string(nk))
					tailMembers = append(tailMembers, string(kb)+": "+string(cb))
					desc = append(desc, fmt.Sprintf("a damaged copy of section %q also stored as %q", k, string(nk)))
					kinds = append(kinds, "json-case-variant-section")
				}
			}
		case 9: // a stale, damaged copy of an object member written under the SAME key, before the genuine one
			// (a JSON document may repeat a key; validators look at the last occurrence, Go's decoder
			// decodes the later one into what the earlier one produced)
			var objs []jsonSlot
			for _, sl := range slots {
				if _, inMap := sl.parent.(map[string]interface{}); !inMap {
					continue
				}
				switch get(sl).(type) {
				case map[string]interface{}, []interface{}:
					objs = append(objs, sl)
				}
			}
			if len(objs) > 0 {
				sl := objs[t.Intn("jd.dup.slot", len(objs))]
				var cp interface{}
				raw, _ := json.Marshal(get(sl))
				_ = json.Unmarshal(raw, &cp)
				how := staleDamage(t, get(sl), &cp)
				sl.parent.(map[string]interface{})[dupKeyPrefix+sl.key] = cp
				desc = append(desc, fmt.Sprintf("a stale copy of %s stored under the same key in front of it (%s)", sl.path, how))
				kinds = append(kinds, "json-duplicate-key")
			}
		case 7: // misdirected member: a member of one object also written into another object
			var objs []jsonSlot
			for _, sl := range slots {
				if _, ok := get(sl).(map[string]interface{}); ok {
					objs = append(objs, sl)
				}
			}
			if len(objs) >= 2 && t.Bool("jd.mm.flag") {
				// a flag (boolean member) of one declaration also written into a declaration of the same
				// kind (one that shares a key with it): few members are flags, and they switch behaviour
				type flagRef struct {
					obj map[string]interface{}
					key string
				}
				var flags []flagRef
				for _, sl := range objs {
					o := get(sl).(map[string]interface{})
					ks := make([]string, 0, len(o))
					for k := range o {
						ks = append(ks, k)
					}
					sortStrings(ks)
					for _, k := range ks {
						if _, isBool := o[k].(bool); isBool {
							flags = append(flags, flagRef{o, k})
						}
					}
				}
				if len(flags) > 0 {
					fr := flags[t.Intn("jd.mm.flag.idx", len(flags))]
					var alike []map[string]interface{}
					for _, sl := range objs {
						o := get(sl).(map[string]interface{})
						if _, has := o[fr.key]; has {
							continue
						}
						for k := range fr.obj {
							if _, shared := o[k]; shared {
								alike = append(alike, o)
								break
							}
						}
					}
					if len(alike) > 0 {
						alike[t.Intn("jd.mm.flag.dst", len(alike))][fr.key] = fr.obj[fr.key]
						desc = append(desc, fmt.Sprintf("flag %q (%v) also written into a declaration of the same kind", fr.key, fr.obj[fr.key]))
						kinds = append(kinds, "json-misdirected-flag")
					}
				}
			} else if len(objs) >= 2 {
				dst := get(objs[t.Intn("jd.mm.dst", len(objs))]).(map[string]interface{})
				src := get(objs[t.Intn("jd.mm.src", len(objs))]).(map[string]interface{})
				keys := make([]string, 0, len(src))
				for k := range src {
					keys = append(keys, k)
				}
				sortStrings(keys)
				if len(keys) > 0 {
					k := keys[t.Intn("jd.mm.key", len(keys))]
					var cp interface{}
					raw, _ := json.Marshal(src[k])
					_ = json.Unmarshal(raw, &cp)
					dst[k] = cp
					desc = append(desc, fmt.Sprintf("member %q (%s) also written into another object", k, clipJSON(raw)))
					kinds = append(kinds, "json-misdirected-member")
				}
			}
		case 6: // misdirected reference: a declaration replaced by a reference to a named top-level declaration
			var names []string
			if top, ok := root.(map[string]interface{}); ok {
				if td, ok := top["transform_declarations"].(map[string]interface{}); ok {
					for k := range td {
						names = append(names, k)
					}
				}
			}
			sortStrings(names)
			// references hidden behind xpath_dynamic are validated on a separate path: aim there half of the time
			var dyn []jsonSlot
			for _, sl := range slots {
				if len(sl.path) > 14 && sl.path[len(sl.path)-14:] == ".xpath_dynamic" {
					dyn = append(dyn, sl)
				}
			}
			if len(dyn) > 0 && t.Bool("jd.tpl.dyn") {
				a = dyn[t.Intn("jd.tpl.dynslot", len(dyn))]
			}
			if _, isObj := get(a).(map[string]interface{}); isObj && len(names) > 0 {
				nm := names[t.Intn("jd.tplname", len(names))]
				set(a, map[string]interface{}{"template": nm})
				desc = append(desc, fmt.Sprintf("%s := {\"template\": %q}", a.path, nm))
				kinds = append(kinds, "json-misdirected-reference")
			}
		case 5: // array element duplicated
			// (done by copying into a neighbouring slot, arrays keep their length)
			if arr, ok := a.parent.([]interface{}); ok && len(arr) > 1 {
				j := (a.idx + 1) % len(arr)
				arr[j] = arr[a.idx]
				desc = append(desc, fmt.Sprintf("%s duplicated over its neighbour", a.path))
				kinds = append(kinds, "json-element-duplicated")
			}
		}
		t.End()
	}
	b, err := json.MarshalIndent(root, "", " ")
	if err != nil {
		return data, nil, nil
	}
	b = bytes.ReplaceAll(b, []byte(`"\u0001dup:`), []byte(`"`))
	if len(tailMembers) > 0 {
		if i := bytes.LastIndexByte(b, '}'); i > 0 {
			nb := append([]byte{}, bytes.TrimRight(b[:i], " \n")...)
			for _, m := range tailMembers {
				nb = append(nb, (",\n " + m)...)
			}
			nb = append(nb, "\n}"...)
			b = nb
		}
	}
	return b, desc, kinds
}

// dupKeyPrefix marks a member that is written under the key of its sibling: it sorts in front of
// every ordinary key and is stripped from the marshalled text.
const dupKeyPrefix = "\x01dup:"

// staleDamage makes a stale copy and the genuine value differ the way that matters when both
// are stored under one key: a member the genuine (later, validated) value no longer has is still
// there in the stale (earlier) copy, holding a value no validator has looked at.
func staleDamage(t *tape.Tape, genuine interface{}, stale *interface{}) string {
	type ref struct {
		path string
		g, s map[string]interface{}
		k    string
	}
	var refs []ref
	var walk func(g, s interface{}, path string)
	walk = func(g, s interface{}, path string) {
		switch gy := g.(type) {
		case map[string]interface{}:
			sy, _ := s.(map[string]interface{})
			ks := make([]string, 0, len(gy))
			for k := range gy {
				ks = append(ks, k)
			}
			sortStrings(ks)
			for _, k := range ks {
				refs = append(refs, ref{path: path + "." + k, g: gy, s: sy, k: k})
				walk(gy[k], sy[k], path+"."+k)
			}
		case []interface{}:
			sy, _ := s.([]interface{})
			for i := range gy {
				if i < len(sy) {
					walk(gy[i], sy[i], fmt.Sprintf("%s[%d]", path, i))
				}
			}
		}
	}
	walk(genuine, *stale, "")
	if len(refs) == 0 {
		*stale = nil
		return "the copy is null"
	}
	r := refs[t.Intn("jd.dup.inner", len(refs))]
	delete(r.g, r.k)
	how := "null"
	switch v := r.s[r.k].(type) {
	case []interface{}:
		if len(v) > 0 && t.Bool("jd.dup.elem") {
			v[t.Intn("jd.dup.elem.idx", len(v))] = nil
			how = "an array with a null element"
		} else {
			r.s[r.k] = nil
		}
	case map[string]interface{}:
		ks := make([]string, 0, len(v))
		for k := range v {
			ks = append(ks, k)
		}
		sortStrings(ks)
		if len(ks) > 0 && t.Bool("jd.dup.member") {
			v[ks[t.Intn("jd.dup.member.idx", len(ks))]] = nil
			how = "an object with a null member"
		} else {
			r.s[r.k] = nil
		}
	case string:
		if t.Bool("jd.dup.str") {
			r.s[r.k] = ""
			how = "an empty string"
		} else {
			r.s[r.k] = nil
		}
	default:
		r.s[r.k] = nil
	}
	return fmt.Sprintf("the genuine value has lost %s, the copy still has it as %s", r.path, how)
}

func sortStrings(a []string) {
	for i := 1; i < len(a); i++ {
		for j := i; j > 0 && a[j] < a[j-1]; j-- {
			a[j], a[j-1] = a[j-1], a[j]
		}
	}
}

func clipJSON(b []byte) string {
	if len(b) > 60 {
		return string(b[:60]) + "..."
	}
	return string(b)
}
