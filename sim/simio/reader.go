// Package simio is the only "network and disk" the system under simulation sees: a reader
// whose chunking, empty reads, EOF style and failures are dictated by a plan drawn from the
// tape, and storage faults applied to stored bytes.
package simio

import (
	"errors"
	"fmt"
	"io"
	"sort"
	"strings"

	"verif/sim/tape"
)

// ErrSimIO is the error injected by the simulated reader.
var ErrSimIO = errors.New("simulated I/O failure (EIO)")

const (
	FaultNone       = 0
	FaultPersistent = 1 // from Off on every call fails
	FaultTransient  = 2 // fails once at Off, delivers Extra more bytes, then fails forever
	FaultTruncate   = 3 // early EOF at Off
)

func FaultName(k int) string {
	switch k {
	case FaultNone:
		return "none"
	case FaultPersistent:
		return "eio-persistent"
	case FaultTransient:
		return "eio-transient-then-persistent"
	case FaultTruncate:
		return "truncate"
	}
	return "?"
}

// Fault describes a stream fault.
type Fault struct {
	Kind     int
	Off      int  // bytes [0,Off) are delivered before the fault
	Extra    int  // transient: bytes delivered after the first failure
	WithData bool // the failing call also returns the bytes it had (n>0 together with err)
	// Identity of the injected error: 0 a plain error (ErrSimIO), 1 io.ErrUnexpectedEOF (what a
	// truncated gzip / HTTP body returns), 2 an error wrapping io.EOF.
	ErrKind int
}

// ErrWrappedEOF is an injected non-EOF error that wraps io.EOF (errors.Is(err, io.EOF) is true,
// err == io.EOF is not).
var ErrWrappedEOF = fmt.Errorf("simulated connection reset: %w", io.EOF)

// Err is the error value this fault injects.
func (f Fault) Err() error {
	switch f.ErrKind {
	case 1:
		return io.ErrUnexpectedEOF
	case 2:
		return ErrWrappedEOF
	}
	return ErrSimIO
}

func (f Fault) String() string {
	if f.Kind == FaultNone {
		return "no fault"
	}
	s := fmt.Sprintf("%s at offset %d", FaultName(f.Kind), f.Off)
	if f.Kind == FaultTransient {
		s += fmt.Sprintf(" (+%d bytes, then persistent)", f.Extra)
	}
	if f.WithData {
		s += " [error returned together with data]"
	}
	if f.ErrKind != 0 && f.Kind != FaultTruncate {
		s += fmt.Sprintf(" [error value: %v]", f.Err())
	}
	return s
}

// Plan is a delivery schedule over a fixed byte string.
type Plan struct {
	Mode        string
	Cuts        []int       // strictly increasing chunk end offsets; last == len(data) (empty for empty data)
	Empty       map[int]int // chunk index -> number of (0,nil) reads before that chunk (<=2)
	EOFWithLast bool        // final chunk is returned together with io.EOF
	Fault       Fault
	// TailChunk > 0: the data goes on beyond the last cut (a plan drawn over a prefix of a long
	// input) and is delivered in chunks of this size from there on - without a cut per chunk, which
	// for 200 MB of input delivered byte by byte would be gigabytes of plan.
	TailChunk int
}

func (p Plan) String() string {
	var sb strings.Builder
	fmt.Fprintf(&sb, "mode=%s chunks=%d", p.Mode, len(p.Cuts))
	if len(p.Cuts) > 0 && len(p.Cuts) <= 24 {
		fmt.Fprintf(&sb, " cuts=%v", p.Cuts)
	}
	ne := 0
	for _, k := range p.Empty {
		ne += k
	}
	fmt.Fprintf(&sb, " emptyReads=%d eofWithLast=%v; %s", ne, p.EOFWithLast, p.Fault.String())
	return sb.String()
}

// Sig is a short signature of the plan (for distinct-case counting).
func (p Plan) Sig() uint64 {
	h := uint64(1469598103934665603)
	mix := func(v uint64) { h ^= v; h *= 1099511628211 }
	for _, c := range p.Cuts {
		mix(uint64(c))
	}
	keys := make([]int, 0, len(p.Empty))
	for k := range p.Empty {
		keys = append(keys, k)
	}
	sort.Ints(keys)
	for _, k := range keys {
		mix(uint64(k)<<8 | uint64(p.Empty[k]))
	}
	if p.EOFWithLast {
		mix(7)
	}
	mix(uint64(p.Fault.Kind)<<40 | uint64(p.Fault.Off)<<8 | uint64(p.Fault.Extra))
	mix(uint64(p.Fault.ErrKind) + 3)
	if p.TailChunk > 0 {
		mix(uint64(p.TailChunk) << 4)
	}
	if p.Fault.WithData {
		mix(11)
	}
	return h
}

// Whole is the baseline plan: everything in one read, EOF on its own.
func Whole(n int) Plan {
	p := Plan{Mode: "whole"}
	if n > 0 {
		p.Cuts = []int{n}
	}
	return p
}

// Reader is the simulated io.Reader.
type Reader struct {
	data []byte
	plan Plan
	pos  int
	ci   int // index of current chunk
	emp  int // empty reads already done before current chunk
	// fault state
	transientDone bool
	failed        bool // a non-EOF error has been returned
	eof           bool

	// Yield, if set, is called at the start of every Read (scheduler hand-off point).
	Yield func()
	// OnRead, if set, is called for every Read with the event (for logs).
	OnRead func(ev ReadEvent)

	Stats ReaderStats
}

// ReadEvent describes one Read call.
type ReadEvent struct {
	Seq  int
	Req  int
	N    int
	Err  error
	From int
}

// ReaderStats counts what actually happened (fired, not merely planned).
type ReaderStats struct {
	Reads          int
	EmptyReads     int
	Bytes          int
	EOFWithData    bool
	FaultFired     bool // the planned fault was reached (an error/early EOF was returned)
	ErrAtRead      int  // sequence number of the first read that returned ErrSimIO (-1 if none)
	ErrAtOffset    int  // stream offset when the error was first returned
	ReadsAfterErr  int  // reads issued after the first ErrSimIO
	BytesAfterErr  int  // bytes delivered after the first ErrSimIO (transient)
	ReadsAfterEOF  int
	MaxReq, MinReq int
}

// NewReader creates a reader over data following plan.
func NewReader(data []byte, plan Plan) *Reader {
	return &Reader{data: data, plan: plan, Stats: ReaderStats{ErrAtRead: -1, MinReq: 1 << 30}}
}

func (r *Reader) limit() int {
	// how far may delivery proceed right now (absolute offset)
	lim := len(r.data)
	f := r.plan.Fault
	switch f.Kind {
	case FaultPersistent, FaultTruncate:
		if f.Off < lim {
			lim = f.Off
		}
	case FaultTransient:
		if !r.transientDone {
			if f.Off < lim {
				lim = f.Off
			}
		} else if f.Off+f.Extra < lim {
			lim = f.Off + f.Extra
		}
	}
	return lim
}

// atFault reports whether the stream position is at the planned fault point.
func (r *Reader) faultNow() (err error, hit bool) {
	f := r.plan.Fault
	switch f.Kind {
	case FaultPersistent:
		if r.pos >= f.Off {
			return f.Err(), true
		}
	case FaultTransient:
		if !r.transientDone && r.pos >= f.Off {
			return f.Err(), true
		}
		if r.transientDone && r.pos >= f.Off+f.Extra {
			return f.Err(), true
		}
	case FaultTruncate:
		if r.pos >= f.Off && f.Off < len(r.data) {
			return io.EOF, true
		}
	}
	return nil, false
}

func (r *Reader) Read(p []byte) (n int, err error) {
	if r.Yield != nil {
		r.Yield()
	}
	seq := r.Stats.Reads
	r.Stats.Reads++
	from := r.pos
	if len(p) > r.Stats.MaxReq {
		r.Stats.MaxReq = len(p)
	}
	if len(p) < r.Stats.MinReq {
		r.Stats.MinReq = len(p)
	}
	if r.failed {
		r.Stats.ReadsAfterErr++
	}
	if r.eof {
		r.Stats.ReadsAfterEOF++
	}
	n, err = r.read(p)
	if err != nil && err != io.EOF {
		if !r.failed {
			r.failed = true
			r.Stats.ErrAtRead = seq
			r.Stats.ErrAtOffset = r.pos
		}
	} else if r.failed {
		r.Stats.BytesAfterErr += n
	}
	if err == io.EOF {
		r.eof = true
	}
	r.Stats.Bytes += n
	if n == 0 && err == nil && len(p) > 0 {
		r.Stats.EmptyReads++
	}
	if r.OnRead != nil {
		r.OnRead(ReadEvent{Seq: seq, Req: len(p), N: n, Err: err, From: from})
	}
	return n, err
}

func (r *Reader) read(p []byte) (int, error) {
	if len(p) == 0 {
		return 0, nil
	}
	if e, hit := r.faultNow(); hit {
		r.Stats.FaultFired = true
		if r.plan.Fault.Kind == FaultTransient && !r.transientDone {
			r.transientDone = true
		}
		return 0, e
	}
	if r.pos >= len(r.data) {
		return 0, io.EOF
	}
	// empty reads scheduled before the current chunk
	for r.ci < len(r.plan.Cuts) && r.plan.Cuts[r.ci] <= r.pos {
		r.ci++
		r.emp = 0
	}
	if k := r.plan.Empty[r.ci]; r.emp < k && r.emp < 2 {
		r.emp++
		return 0, nil
	}
	end := len(r.data)
	if r.ci < len(r.plan.Cuts) {
		end = r.plan.Cuts[r.ci]
	} else if tc := r.plan.TailChunk; tc > 0 && len(r.plan.Cuts) > 0 {
		last := r.plan.Cuts[len(r.plan.Cuts)-1]
		if e := last + ((r.pos-last)/tc+1)*tc; e < end {
			end = e
		}
	}
	if lim := r.limit(); lim < end {
		end = lim
	}
	n := end - r.pos
	if n > len(p) {
		n = len(p)
	}
	copy(p, r.data[r.pos:r.pos+n])
	r.pos += n
	// error / EOF returned together with data
	if r.pos >= len(r.data) && r.plan.EOFWithLast {
		if _, hit := r.faultNow(); !hit {
			r.Stats.EOFWithData = true
			return n, io.EOF
		}
	}
	if r.plan.Fault.WithData && n > 0 {
		if e, hit := r.faultNow(); hit {
			r.Stats.FaultFired = true
			if r.plan.Fault.Kind == FaultTransient && !r.transientDone {
				r.transientDone = true
			}
			return n, e
		}
	}
	return n, nil
}

// Pos is the number of bytes delivered so far.
func (r *Reader) Pos() int { return r.pos }

var fixedSizes = []int{2, 3, 5, 7, 16, 64, 127, 128, 129, 511, 512, 513, 1024, 4095, 4096, 4097}

// HotOffsets returns offsets where a chunk boundary is most likely to hurt: inside multi-byte
// runes, between CR and LF, inside the BOM, right before/after punctuation (delimiters,
// quotes, escapes, brackets).
func HotOffsets(data []byte) []int {
	var hot []int
	add := func(i int) {
		if i > 0 && i < len(data) {
			hot = append(hot, i)
		}
	}
	for i := 0; i < len(data); i++ {
		c := data[i]
		switch {
		case c >= 0x80 && c < 0xC0: // continuation byte: cut before it splits a rune
			add(i)
		case c == '\n' && i > 0 && data[i-1] == '\r':
			add(i)
		case c < 0x80 && !(c >= '0' && c <= '9') && !(c >= 'a' && c <= 'z') && !(c >= 'A' && c <= 'Z') && c != ' ':
			add(i)
			add(i + 1)
		}
	}
	if len(data) >= 3 && data[0] == 0xEF && data[1] == 0xBB && data[2] == 0xBF {
		add(1)
		add(2)
		add(3)
	}
	sort.Ints(hot)
	out := hot[:0]
	prev := -1
	for _, h := range hot {
		if h != prev {
			out = append(out, h)
			prev = h
		}
	}
	return out
}

// DrawPlan draws a delivery plan (no fault) for data.
func DrawPlan(t *tape.Tape, data []byte) Plan {
	t.Begin("plan")
	defer t.End()
	n := len(data)
	p := Plan{Empty: map[int]int{}}
	mode := t.Weighted("plan.mode", 2, 3, 4, 3, 4, 5, 3)
	switch {
	case n == 0:
		p.Mode = "empty-input"
	case mode == 0:
		p.Mode = "whole"
		p.Cuts = []int{n}
	case mode == 1:
		p.Mode = "1-byte"
		for i := 1; i <= n; i++ {
			p.Cuts = append(p.Cuts, i)
		}
	case mode == 2:
		p.Mode = "small-random"
		for pos := 0; pos < n; {
			pos += 1 + t.Intn("plan.sz", 8)
			if pos > n {
				pos = n
			}
			p.Cuts = append(p.Cuts, pos)
		}
	case mode == 3:
		p.Mode = "large-random"
		for pos := 0; pos < n; {
			pos += 1 + t.Intn("plan.sz", 5000)
			if pos > n {
				pos = n
			}
			p.Cuts = append(p.Cuts, pos)
		}
	case mode == 4:
		k := fixedSizes[t.Intn("plan.fixed", len(fixedSizes))]
		first := k
		if t.Bool("plan.fixed.shift") {
			first = 1 + t.Intn("plan.fixed.first", k)
		}
		p.Mode = fmt.Sprintf("fixed-%d(first %d)", k, first)
		for pos := first; ; pos += k {
			if pos >= n {
				p.Cuts = append(p.Cuts, n)
				break
			}
			p.Cuts = append(p.Cuts, pos)
		}
	case mode == 6:
		// line-aligned: every chunk ends right after a line feed (all of them, or a random subset)
		p.Mode = "line-aligned"
		den := 1 + t.Intn("plan.lines.den", 3)
		for i := 0; i < n-1; i++ {
			if data[i] == '\n' && (den == 1 || t.Intn("plan.lines", den) == 0) {
				p.Cuts = append(p.Cuts, i+1)
			}
		}
		p.Cuts = append(p.Cuts, n)
	default:
		p.Mode = "targeted"
		hot := HotOffsets(data)
		// each hot offset becomes a cut with a per-plan probability
		den := 1 + t.Intn("plan.hot.den", 6)
		for _, h := range hot {
			if len(hot) > 4096 && h%7 != 0 { // keep the tape short on big inputs
				continue
			}
			if t.Intn("plan.hot", den) == 0 {
				p.Cuts = append(p.Cuts, h)
			}
		}
		if len(p.Cuts) == 0 || p.Cuts[len(p.Cuts)-1] != n {
			p.Cuts = append(p.Cuts, n)
		}
	}
	// empty reads
	if len(p.Cuts) > 0 {
		switch t.Weighted("plan.empty.mode", 5, 3, 1) {
		case 1:
			k := 1 + t.Intn("plan.empty.k", 4)
			for i := 0; i < k; i++ {
				p.Empty[t.Intn("plan.empty.at", len(p.Cuts))] = 1 + t.Intn("plan.empty.n", 2)
			}
		case 2:
			if len(p.Cuts) <= 2048 {
				for i := range p.Cuts {
					p.Empty[i] = 1 + i%2
				}
			}
		}
	}
	p.EOFWithLast = t.Bool("plan.eofWithLast")
	return p
}

// Offset classes for stream faults.
const (
	OffStart   = 0 // before the first byte
	OffHeader  = 1 // inside the header area (before the first record)
	OffInside  = 2 // strictly inside a record
	OffBetween = 3 // exactly between two records
	OffEnd     = 4 // after the last byte, in place of EOF
	OffAny     = 5 // uniformly anywhere
)

func OffClassName(c int) string {
	return [...]string{"before-first-byte", "in-header", "inside-record", "between-records", "at-end", "anywhere"}[c]
}

// RecSpan is the byte span [Start,End) of one target record in an input.
type RecSpan struct{ Start, End int }

// DrawFaultOffset draws a fault offset by class. recs may be nil (corpus worlds), in which
// case record-relative classes degrade to "anywhere". It returns the class actually used.
func DrawFaultOffset(t *tape.Tape, n int, recs []RecSpan) (off int, class int) {
	class = t.Weighted("fault.class", 1, 6, 6, 4, 2, 3)
	if n == 0 {
		return 0, OffStart
	}
	switch class {
	case OffStart:
		return 0, class
	case OffEnd:
		return n, class
	case OffHeader:
		if len(recs) > 0 && recs[0].Start > 0 {
			return t.Intn("fault.off", recs[0].Start), class
		}
	case OffInside:
		if len(recs) > 0 {
			r := recs[t.Intn("fault.rec", len(recs))]
			if r.End-r.Start >= 2 {
				return r.Start + 1 + t.Intn("fault.off", r.End-r.Start-1), class
			}
		}
	case OffBetween:
		if len(recs) > 0 {
			r := recs[t.Intn("fault.rec", len(recs))]
			return r.End, class
		}
	}
	return t.Intn("fault.off", n+1), OffAny
}
