package simio

import (
	"fmt"

	"verif/sim/tape"
)

// Storage-fault kinds.
var DamageKinds = []string{"flip-bit", "set-byte", "zero-block", "drop-block", "dup-block", "swap-blocks", "splice-foreign", "truncate", "insert-junk"}

// Damage applies 1..k storage faults to data (a copy is returned). masker(cur) returns a predicate over offsets of cur
// that must not be touched (e.g. JavaScript source text in schemas). foreign holds
// other stored files a misdirected write could come from.
func Damage(t *tape.Tape, data []byte, foreign [][]byte, masker func(cur []byte) func(off int) bool, maxFaults int) (out []byte, desc []string, kinds []string) {
	t.Begin("damage")
	defer t.End()
	out = append([]byte(nil), data...)
	k := 1
	if maxFaults > 1 {
		k = 1 + t.Weighted("damage.count", 6, 2, 1)
		if k > maxFaults {
			k = maxFaults
		}
	}
	var masked func(int) bool
	ok := func(from, to int) bool {
		if masked == nil {
			return true
		}
		for i := from; i < to; i++ {
			if masked(i) {
				return false
			}
		}
		return true
	}
	for f := 0; f < k; f++ {
		t.Begin("damage.one")
		n := len(out)
		if masker != nil {
			masked = masker(out)
		}
		kind := t.Intn("damage.kind", len(DamageKinds))
		if n == 0 {
			kind = 8
		}
		name := DamageKinds[kind]
		blk := func() (int, int) {
			off := t.Intn("damage.off", n)
			ln := 1 + t.Intn("damage.len", 64)
			if t.Chance("damage.long", 1, 8) {
				ln = 1 + t.Intn("damage.len2", 600)
			}
			if off+ln > n {
				ln = n - off
			}
			return off, ln
		}
		applied := false
		switch name {
		case "flip-bit":
			off := t.Intn("damage.off", n)
			bit := uint(t.Intn("damage.bit", 8))
			if ok(off, off+1) {
				out[off] ^= 1 << bit
				desc = append(desc, fmt.Sprintf("flip bit %d of byte %d", bit, off))
				applied = true
			}
		case "set-byte":
			off := t.Intn("damage.off", n)
			// bias to structurally meaningful bytes
			special := []byte{0, '\n', '\r', '"', '\'', '{', '}', '[', ']', ',', ':', '<', '>', '/', '*', '~', '|', '\\', '?', '-', '0', '9', ' ', 0xff, 0xef, 0x80, '&', ';', '.', '(', ')'}
			var b byte
			if t.Bool("damage.special") {
				b = special[t.Intn("damage.byte", len(special))]
			} else {
				b = byte(t.Intn("damage.byte", 256))
			}
			if ok(off, off+1) {
				out[off] = b
				desc = append(desc, fmt.Sprintf("byte %d := 0x%02x", off, b))
				applied = true
			}
		case "zero-block":
			off, ln := blk()
			if ok(off, off+ln) {
				for i := off; i < off+ln; i++ {
					out[i] = 0
				}
				desc = append(desc, fmt.Sprintf("zero [%d,%d)", off, off+ln))
				applied = true
			}
		case "drop-block":
			off, ln := blk()
			if ok(off, off+ln) {
				out = append(out[:off:off], out[off+ln:]...)
				desc = append(desc, fmt.Sprintf("drop [%d,%d)", off, off+ln))
				applied = true
			}
		case "dup-block":
			off, ln := blk()
			if ok(off, off+ln) {
				nb := make([]byte, 0, n+ln)
				nb = append(nb, out[:off+ln]...)
				nb = append(nb, out[off:off+ln]...)
				nb = append(nb, out[off+ln:]...)
				out = nb
				desc = append(desc, fmt.Sprintf("duplicate [%d,%d)", off, off+ln))
				applied = true
			}
		case "swap-blocks":
			a, la := blk()
			b, lb := blk()
			if a > b {
				a, b, la, lb = b, a, lb, la
			}
			if a+la <= b && ok(a, a+la) && ok(b, b+lb) {
				nb := make([]byte, 0, n)
				nb = append(nb, out[:a]...)
				nb = append(nb, out[b:b+lb]...)
				nb = append(nb, out[a+la:b]...)
				nb = append(nb, out[a:a+la]...)
				nb = append(nb, out[b+lb:]...)
				out = nb
				desc = append(desc, fmt.Sprintf("swap [%d,%d) with [%d,%d)", a, a+la, b, b+lb))
				applied = true
			}
		case "splice-foreign":
			if len(foreign) > 0 {
				src := foreign[t.Intn("damage.foreign", len(foreign))]
				if len(src) > 0 {
					off, ln := blk()
					so := t.Intn("damage.foreign.off", len(src))
					if so+ln > len(src) {
						ln = len(src) - so
					}
					if ok(off, off+ln) {
						copy(out[off:off+ln], src[so:so+ln])
						desc = append(desc, fmt.Sprintf("overwrite [%d,%d) with foreign bytes", off, off+ln))
						applied = true
					}
				}
			}
		case "truncate":
			off := t.Intn("damage.off", n)
			if ok(off, n) {
				out = out[:off]
				desc = append(desc, fmt.Sprintf("truncate at %d", off))
				applied = true
			}
		case "insert-junk":
			off := 0
			if n > 0 {
				off = t.Intn("damage.off", n+1)
			}
			ln := 1 + t.Intn("damage.len", 16)
			junk := make([]byte, ln)
			for i := range junk {
				junk[i] = byte(t.Intn("damage.byte", 256))
			}
			if ok(off, off) {
				nb := make([]byte, 0, n+ln)
				nb = append(nb, out[:off]...)
				nb = append(nb, junk...)
				nb = append(nb, out[off:]...)
				out = nb
				desc = append(desc, fmt.Sprintf("insert %d junk bytes at %d", ln, off))
				applied = true
			}
		}
		if applied {
			kinds = append(kinds, name)
		}
		t.End()
	}
	return out, desc, kinds
}
