package props

import (
	"encoding/json"
	"fmt"
	"io"
	"sort"
	"strings"

	"github.com/jf-tech/omniparser/idr"

	"verif/sim/run"
	"verif/sim/sched"
	"verif/sim/simio"
	"verif/sim/world"
)

// runC12Churn is the long-history end of "every acquisition carries an ID distinct from every other
// acquisition in the process": a few long-lived nodes, acquired at drawn moments, and one owner that
// acquires and releases small trees tens to hundreds of thousands of times in between (what a
// transform does over a long input: the same pooled nodes go round and round). Every ID handed out
// is recorded; every fresh node must be blank.
func runC12Churn(c *Ctx) []Violation {
	env := baseEnv(c)
	env.NodePool = true
	cycles := []int{70000, 140000, 300000}[c.T.Weighted("c12.churn.cycles", 3, 2, 1)]
	if c.Tier == "thorough" && c.T.Chance("c12.churn.long", 1, 4) {
		cycles = 1200000
	}
	nLong := 1 + c.T.Intn("c12.churn.longlived", 6)
	at := make(map[int]bool, nLong)
	for i := 0; i < nLong; i++ {
		// most long-lived nodes are taken early (they are the roots and ancestors of a stream)
		if c.T.Bool("c12.churn.early") {
			at[c.T.Intn("c12.churn.at.early", 64)] = true
		} else {
			at[c.T.Intn("c12.churn.at", cycles)] = true
		}
	}
	width := 1 + c.T.Intn("c12.churn.width", 3) // nodes per churned tree
	emptyAt := -1
	if c.T.Chance("c12.churn.emptypool", 1, 3) {
		emptyAt = c.T.Intn("c12.churn.emptyat", cycles)
	}
	env.Apply()
	ids := make(map[int64]string, cycles*width+nLong)
	var long []*idr.Node
	fail := ""
	take := func(who string, n *idr.Node) {
		if fail != "" {
			return
		}
		if n.Parent != nil || n.FirstChild != nil || n.LastChild != nil || n.PrevSibling != nil || n.NextSibling != nil {
			fail = fmt.Sprintf("freshly created node (%s) is not blank: it carries links", who)
			return
		}
		if prev, dup := ids[n.ID]; dup {
			fail = fmt.Sprintf("ID %d (%#x) handed out twice: first to %s, now to %s", n.ID, n.ID, prev, who)
			return
		}
		ids[n.ID] = who
	}
	done := 0
	for i := 0; i < cycles && fail == ""; i++ {
		if at[i] {
			n := idr.CreateNode(idr.ElementNode, "long")
			take(fmt.Sprintf("long-lived node #%d (taken at cycle %d)", len(long), i), n)
			long = append(long, n)
		}
		if i == emptyAt {
			run.EmptyPools()
		}
		root := idr.CreateNode(idr.ElementNode, "r")
		take(fmt.Sprintf("a churned node (cycle %d)", i), root)
		for k := 1; k < width && fail == ""; k++ {
			ch := idr.CreateNode(idr.TextNode, "c")
			take(fmt.Sprintf("a churned node (cycle %d)", i), ch)
			idr.AddChild(root, ch)
		}
		idr.RemoveAndReleaseTree(root)
		done++
		if i&0xffff == 0xffff && run.Beat != nil {
			run.Beat()
		}
	}
	for i, n := range long {
		if fail == "" && (n.Data != "long" || n.FirstChild != nil || n.Parent != nil) {
			fail = fmt.Sprintf("long-lived node #%d was tampered with while it was live (data %q)", i, n.Data)
		}
	}
	c.Events += int64(done * (width + 1))
	c.Count("churn.cycles", int64(done))
	c.Count("acquisitions", int64(len(ids)))
	c.Count("part.churn", 1)
	c.Nontrivial = true
	c.SigMix(uint64(cycles)<<8 | uint64(nLong)<<4 | uint64(width))
	if c.Race {
		c.Ev("c12-churn", done, len(ids)) // (race builds: sync.Pool drops items at random, the counter is not a function of the tape)
	} else {
		c.Ev("c12-churn", done, len(ids), idr.VerifNodeIDCounter())
	}
	c.Sample = map[string]interface{}{"kind": "long recycle history", "cycles": done, "long_lived": len(long), "acquisitions": len(ids)}
	if fail != "" {
		return []Violation{viol("C12.id-unique-long", "node IDs / blankness over a long recycle history: "+fail, fail,
			fmt.Sprintf("%d cycles of create-%d-nodes/release, %d long-lived nodes", cycles, width, nLong), "env: "+env.String())}
	}
	return nil
}

// runC12Direct drives the format reader of a real Transform by itself — Read, Release, Read … — the
// way the library's ingester does, but with the liberties a caller of that interface has: some more
// Reads after the terminal result, and a second owner that takes nodes from the pool, builds trees of
// its own and gives them back while the reader is between two calls. After every call: the pool holds
// no node twice, every pooled node is blank (a released node is never still in use), the second
// owner's live nodes are exactly what it made them, and every tree handed out is sound.
func runC12Direct(c *Ctx) []Violation {
	w := pickWorld(c, worldOpts{CorpusWeight: 1, GenWeight: 4, Encodings: true})
	env := baseEnv(c)
	env.NodePool = true
	input := w.Input
	plan := simio.DrawPlan(c.T, input)
	var desc []string
	switch c.T.Weighted("c12d.fault", 3, 2, 2, 2, 3) {
	case 1:
		input, desc, _ = simio.Damage(c.T, input, nil, nil, 2)
		plan = simio.DrawPlan(c.T, input)
	case 2:
		off, _ := simio.DrawFaultOffset(c.T, len(input), w.Recs)
		plan.Fault = simio.Fault{Kind: simio.FaultTruncate, Off: off}
	case 3:
		off, _ := simio.DrawFaultOffset(c.T, len(input), w.Recs)
		plan.Fault = simio.Fault{Kind: simio.FaultPersistent, Off: off, WithData: c.T.Bool("c12d.fault.withdata")}
	case 4:
		// the input reader fails once and then goes on delivering: a caller of the format reader that
		// tries again (after whatever kind of error) meets the reader in the state the failure left it in
		off, _ := simio.DrawFaultOffset(c.T, len(input), w.Recs)
		if off < len(input) {
			plan.Fault = simio.Fault{Kind: simio.FaultTransient, Off: off, Extra: len(input) - off, WithData: c.T.Bool("c12d.fault.withdata")}
			if c.T.Bool("c12d.fault.shorttail") {
				plan.Fault.Extra = c.T.Intn("c12d.fault.extra", len(input)-off+1)
			}
		}
	}
	if plan.Fault.Kind != 0 {
		c.Count("fault."+simio.FaultName(plan.Fault.Kind), 1)
	}
	extra := 1 + c.T.Intn("c12d.extra-reads", 3)
	// what the second owner does in each gap: 0 nothing, 1 take nodes and keep them, 2 give some back
	gaps := make([]int, 64)
	for i := range gaps {
		gaps[i] = c.T.Weighted("c12d.gap", 2, 2, 1)
	}
	gapN := make([]int, 64)
	for i := range gapN {
		gapN[i] = 1 + c.T.Intn("c12d.gap.n", 4)
	}
	env.Apply()
	rd := simio.NewReader(input, plan)
	schema, es, ps := run.NewSchema("sim-schema", w.Schema)
	if schema == nil {
		panic("harness: world schema rejected: " + es + ps)
	}
	tr, es, ps := run.NewTransform(schema, "sim-input", rd, w.Ext)
	c.Count("part.direct", 1)
	if tr == nil {
		c.Ev("c12d-notransform", es, ps)
		return nil
	}
	fr := run.FormatReaderOf(tr)
	if fr == nil {
		panic("harness: no format reader found below the Transform")
	}
	return driveDirect(c, w.Name, w.Format, desc, plan, env, rd, fr.Read, fr.Release,
		func(err error) bool { return err == io.EOF || !fr.IsContinuableError(err) }, extra, gaps, gapN, "format reader")
}

// driveDirect is the Read / second owner / Release loop shared by the direct families.
func driveDirect(c *Ctx, wName, wFormat string, desc []string, plan simio.Plan, env run.Env, rd *simio.Reader,
	read func() (*idr.Node, error), release func(*idr.Node), isTerminal func(error) bool, extra int, gaps, gapN []int, what string) []Violation {
	type snap struct {
		id   int64
		data string
		par  *idr.Node
		fc   *idr.Node
		next *idr.Node
	}
	mine := map[*idr.Node]snap{}
	var mineOrder []*idr.Node
	counter := 0
	det := func(extra ...string) []string {
		d := []string{"world: " + wName, fmt.Sprintf("storage faults: %v", desc), "delivery plan: " + plan.String(), "env: " + env.String()}
		return append(d, extra...)
	}
	var history []string
	problem := ""
	inspect := func(when string) {
		if problem != "" {
			return
		}
		// the second owner's nodes
		for _, n := range mineOrder {
			s := mine[n]
			if n.ID != s.id || n.Data != s.data || n.Parent != s.par || n.FirstChild != s.fc || n.NextSibling != s.next {
				problem = fmt.Sprintf("%s: a node the second owner holds (acquired with ID %d, data %q) was changed by the reader: now ID %d, data %q, %s", when, s.id, s.data, n.ID, n.Data, linksChanged(n.Parent != s.par, n.FirstChild != s.fc, n.NextSibling != s.next))
				return
			}
		}
		if c.Race {
			return // race builds: sync.Pool drops items at random, the pool cannot be taken apart faithfully
		}
		pooled := idr.VerifDrainNodePool()
		seen := make(map[*idr.Node]bool, len(pooled))
		for _, n := range pooled {
			if seen[n] {
				problem = fmt.Sprintf("%s: %d nodes in the pool; node %p (last ID %d) is among them more than once", when, len(pooled), n, n.ID)
			}
			seen[n] = true
			if _, held := mine[n]; held && problem == "" {
				problem = fmt.Sprintf("%s: a node the second owner holds (ID %d) is in the pool", when, n.ID)
			}
			if problem == "" && (n.Parent != nil || n.FirstChild != nil || n.LastChild != nil || n.PrevSibling != nil || n.NextSibling != nil) {
				problem = fmt.Sprintf("%s: a pooled node (last ID %d, data %q) carries links: it was released while still in use", when, n.ID, n.Data)
			}
		}
		c.Count("pooled-nodes-checked", int64(len(pooled)))
		idr.VerifRefillNodePool(pooled)
	}
	inspectPoolOnly := func() {
		if problem != "" {
			return
		}
		pooled := idr.VerifDrainNodePool()
		seen := make(map[*idr.Node]bool, len(pooled))
		for _, n := range pooled {
			if seen[n] {
				problem = fmt.Sprintf("between two statements of the library: %d nodes in the pool; node %p (last ID %d) is among them more than once", len(pooled), n, n.ID)
			}
			seen[n] = true
		}
		idr.VerifRefillNodePool(pooled)
	}
	gapIdx := 0
	gap := func() {
		g, k := gaps[gapIdx%len(gaps)], gapN[gapIdx%len(gapN)]
		gapIdx++
		switch g {
		case 1:
			var root *idr.Node
			for i := 0; i < k; i++ {
				counter++
				// nodes of the kinds the readers themselves make (a reader that still uses a node it has
				// released treats it according to what the new owner has made of it)
				var n *idr.Node
				switch data := fmt.Sprintf("mine-%d", counter); (counter + k) % 4 {
				case 0:
					n = idr.CreateNode(idr.ElementNode, data)
				case 1:
					n = idr.CreateJSONNode(idr.ElementNode, data, idr.JSONObj)
				case 2:
					n = idr.CreateJSONNode(idr.ElementNode, data, idr.JSONArr)
				default:
					n = idr.CreateXMLNode(idr.ElementNode, data, idr.XMLSpecific{})
				}
				if root == nil {
					root = n
				} else {
					idr.AddChild(root, n)
				}
				mineOrder = append(mineOrder, n)
			}
			for _, n := range mineOrder {
				mine[n] = snap{n.ID, n.Data, n.Parent, n.FirstChild, n.NextSibling}
			}
			c.Count("second-owner.acquired", int64(k))
		case 2:
			// give back the trees of the second owner (roots only; subtrees go with them)
			var roots []*idr.Node
			for _, n := range mineOrder {
				if n.Parent == nil {
					roots = append(roots, n)
				}
			}
			for _, n := range roots {
				idr.RemoveAndReleaseTree(n)
			}
			c.Count("second-owner.released", int64(len(mineOrder)))
			mine = map[*idr.Node]snap{}
			mineOrder = nil
		}
	}
	if sched.Instrumented && !c.Race {
		// in the instrumented flavour the pool is also looked at between the statements of the library
		// (every fifth statement at a drawn phase): a node released twice and taken out again twice a
		// moment later never shows between two calls
		phase, n := c.T.Intn("c12d.pool-probe.phase", 5), 0
		sched.StatementProbe = func() {
			if n++; n%5 == phase {
				inspectPoolOnly()
			}
		}
		defer func() { sched.StatementProbe = nil }()
	}
	audited, reads, afterTerminal := 0, 0, 0
	var last *idr.Node
	readOnce := func() (n *idr.Node, err error, panicked string) {
		defer func() {
			if r := recover(); r != nil {
				panicked = run.SafeSprint(r)
			}
		}()
		n, err = read()
		return
	}
	terminalSeen := false
	for reads < 600 && problem == "" {
		n, err, p := readOnce()
		reads++
		if p != "" {
			history = append(history, fmt.Sprintf("Read#%d panicked: %s", reads, clipS(p, 120)))
			// a panic out of the reader's Read is C03's subject; the structure is still inspected
			inspect(fmt.Sprintf("after Read#%d (which panicked)", reads))
			break
		}
		if err != nil {
			history = append(history, fmt.Sprintf("Read#%d -> error %s", reads, clipS(err.Error(), 80)))
		} else {
			history = append(history, fmt.Sprintf("Read#%d -> node", reads))
		}
		if n != nil && err == nil {
			if a := run.AuditFrom(n); a != "" && problem == "" {
				problem = fmt.Sprintf("after Read#%d: tree handed out by the reader is unsound: %s", reads, a)
			}
			if _, held := mine[n]; held && problem == "" {
				problem = fmt.Sprintf("after Read#%d: the reader handed out a node the second owner holds", reads)
			}
			audited++
		}
		inspect(fmt.Sprintf("after Read#%d", reads))
		gap()
		inspect(fmt.Sprintf("after the second owner's turn following Read#%d", reads))
		if n != nil {
			last = n
			release(n)
			history = append(history, "Release")
			inspect(fmt.Sprintf("after Release following Read#%d", reads))
		}
		_ = last
		terminal := err != nil && isTerminal(err)
		if terminal || terminalSeen {
			terminalSeen = true
			afterTerminal++
			if afterTerminal > extra {
				break
			}
		}
	}
	inspect("at the end")
	c.Events += int64(rd.Stats.Reads + reads)
	c.SigMix(plan.Sig())
	c.SigMix(uint64(extra))
	c.Count("reader-trees-audited", int64(audited))
	c.Count("direct.reads-after-terminal", int64(afterTerminal))
	if audited > 0 || afterTerminal > 0 {
		c.Nontrivial = true
	}
	c.Ev("c12d", audited, reads, plan.Sig(), problem == "")
	c.Sample = map[string]interface{}{"kind": what + " driven directly", "world": wName, "reads": reads, "audited_records": audited, "plan": plan.Mode}
	if problem != "" {
		from := len(history) - 14
		if from < 0 {
			from = 0
		}
		return []Violation{viol("C12.direct", wFormat+": "+what+" driven directly (Read/Release, reads after the terminal result, a second owner using the pool): "+problem,
			det(problem, fmt.Sprintf("last calls: %v", history[from:]))...)}
	}
	return nil
}

// flakyReader fails once (0, err) before each of a drawn set of Read calls and then does what it
// would have done: purely transient failures, as a caller that tries again after a time-out sees them.
type flakyReader struct {
	in     io.Reader
	failAt map[int]bool
	calls  int
	failed bool
	fired  int
}

func (f *flakyReader) Read(p []byte) (int, error) {
	if f.failAt[f.calls] && !f.failed {
		f.failed = true
		f.fired++
		return 0, simio.ErrSimIO
	}
	f.failed = false
	f.calls++
	return f.in.Read(p)
}

// runC12Streams drives the two idr stream readers themselves (the objects the json, xml and jsonlog
// formats are built on, and a public API of their own): Read / Release over a simulated reader that
// also fails transiently at drawn calls, with a caller that simply tries again after an error, goes
// on reading after the end, and shares the node pool with a second owner.
func runC12Streams(c *Ctx) []Violation {
	w := genWorld(c, world.GenOpts{Formats: []string{"json", "xml"}, Encodings: false})
	env := baseEnv(c)
	env.NodePool = true
	var sch struct {
		TD map[string]struct {
			XPath string `json:"xpath"`
		} `json:"transform_declarations"`
	}
	if err := json.Unmarshal(w.Schema, &sch); err != nil {
		panic("harness: generated schema unreadable: " + err.Error())
	}
	target := sch.TD["FINAL_OUTPUT"].XPath
	input := w.Input
	plan := simio.DrawPlan(c.T, input)
	var desc []string
	if c.T.Chance("c12s.root-target", 1, 5) {
		// the stream node is the document node itself: one record, which is also the reader's root
		target = c.T.Pick("c12s.root-target.xpath", ".", "/")
		desc = append(desc, "stream xpath "+target+" (the document node is the record)")
		c.Count("streams.document-node-is-the-record", 1)
	}
	// a caller that never calls Release: both readers release what they returned when Read is called
	// again ("in case Release isn't called"), which makes this a supported way of using them
	lazy := c.T.Chance("c12s.no-release", 1, 3)
	if lazy {
		desc = append(desc, "the caller never calls Release (the next Read releases what the last one returned)")
		c.Count("streams.caller-never-releases", 1)
	}
	nFail := c.T.Weighted("c12s.transient-failures", 1, 2, 2, 2, 1)
	failAt := map[int]bool{}
	for i := 0; i < nFail; i++ {
		k := c.T.Intn("c12s.fail-at-call", 2+len(plan.Cuts))
		failAt[k] = true
		if c.T.Bool("c12s.fail-again") {
			// ... and once more before the very next call: the caller's second try fails as well
			failAt[k+1] = true
		}
	}
	if nFail > 0 {
		desc = append(desc, fmt.Sprintf("input reader fails once before its calls %v and then carries on", keysOf(failAt)))
	}
	if c.T.Chance("c12s.truncate", 1, 4) {
		off, _ := simio.DrawFaultOffset(c.T, len(input), w.Recs)
		plan.Fault = simio.Fault{Kind: simio.FaultTruncate, Off: off}
	}
	extra := 1 + c.T.Intn("c12s.extra-reads", 3)
	gaps := make([]int, 64)
	for i := range gaps {
		gaps[i] = c.T.Weighted("c12s.gap", 1, 4, 1)
	}
	gapN := make([]int, 64)
	for i := range gapN {
		gapN[i] = 1 + c.T.Intn("c12s.gap.n", 4)
	}
	env.Apply()
	rd := simio.NewReader(input, plan)
	fl := &flakyReader{in: rd, failAt: failAt}
	var read func() (*idr.Node, error)
	var release func(*idr.Node)
	if w.Format == "json" {
		sp, err := idr.NewJSONStreamReader(fl, target)
		if err != nil {
			panic("harness: NewJSONStreamReader: " + err.Error())
		}
		read, release = sp.Read, sp.Release
	} else {
		sp, err := idr.NewXMLStreamReader(fl, target)
		if err != nil {
			panic("harness: NewXMLStreamReader: " + err.Error())
		}
		read, release = sp.Read, sp.Release
	}
	if lazy {
		release = func(*idr.Node) {}
	}
	c.Count("part.streams", 1)
	// every error but the end of the input is followed by another try (bounded by the loop's read limit
	// and by `extra` once the end has been seen)
	vs := driveDirect(c, w.Name, w.Format, desc, plan, env, rd, read, release,
		func(err error) bool { return err == io.EOF }, extra, gaps, gapN, "idr stream reader")
	c.Count("fault.eio-transient-repeated", int64(fl.fired))
	return vs
}

func keysOf(m map[int]bool) []int {
	var out []int
	for k := range m {
		out = append(out, k)
	}
	sort.Ints(out)
	return out
}

func linksChanged(par, fc, next bool) string {
	var out []string
	if par {
		out = append(out, "its parent link changed")
	}
	if fc {
		out = append(out, "its child list changed (the reader attached or removed nodes)")
	}
	if next {
		out = append(out, "its sibling link changed")
	}
	if len(out) == 0 {
		return "links unchanged"
	}
	return strings.Join(out, ", ")
}
