package props

import (
	"bytes"
	"strings"

	"verif/sim/run"
	"verif/sim/tape"
	"verif/sim/world"
)

// worldOpts selects where a run's world comes from.
type worldOpts struct {
	CorpusWeight int
	GenWeight    int
	Formats      []string // restrict generated formats (nil = all)
	Encodings    bool     // allow BOM / declared-encoding variants
	NoJS         bool     // avoid worlds that use javascript
	Pathological bool     // see world.GenOpts
}

var bom = []byte{0xEF, 0xBB, 0xBF}

// pickWorld draws a world.
func pickWorld(c *Ctx, o worldOpts) *world.World {
	c.T.Begin("world")
	defer c.T.End()
	var w *world.World
	useGen := o.GenWeight > 0 && world.HaveGenerators() && (o.CorpusWeight == 0 || c.T.Weighted("world.src", o.CorpusWeight, o.GenWeight) == 1)
	if useGen {
		w = genWorld(c, world.GenOpts{Formats: o.Formats, NoJS: o.NoJS, Encodings: o.Encodings, Pathological: o.Pathological})
		c.Count("world.generated", 1)
	} else {
		corpus, err := world.Corpus()
		if err != nil {
			panic("harness: " + err.Error())
		}
		var cands []*world.World
		for _, x := range corpus {
			if o.NoJS && x.UsesJS {
				continue
			}
			if len(o.Formats) > 0 && !contains(o.Formats, x.Format) {
				continue
			}
			// the 300 KB x12-834 schema is slow to validate; use it rarely
			cands = append(cands, x)
		}
		w = cands[c.T.Intn("world.corpus", len(cands))]
		if len(w.Schema) > 100000 && c.T.Intn("world.big.skip", 8) != 0 {
			w = cands[0]
		}
		w = w.Clone()
		c.Count("world.corpus", 1)
		if o.Encodings {
			w = encodingVariant(c.T, w)
		}
	}
	c.Count("world.format."+w.Format, 1)
	c.SigMix(w.Hash())
	return w
}

func contains(l []string, s string) bool {
	for _, x := range l {
		if x == s {
			return true
		}
	}
	return false
}

// encodingVariant optionally prepends a BOM and/or declares a single-byte encoding (corpus
// inputs are ASCII, so declaring iso-8859-1 / windows-1252 keeps their meaning while
// inserting the charset decoder into the reader stack).
func encodingVariant(t *tape.Tape, w *world.World) *world.World {
	switch t.Weighted("world.enc", 5, 2, 1, 1) {
	case 1:
		if !bytes.HasPrefix(w.Input, bom) {
			w.Input = append(append([]byte{}, bom...), w.Input...)
			w.SetTag("bom", "1")
			w.Name += "+bom"
		}
	case 2, 3:
		enc := "iso-8859-1"
		if t.Bool("world.enc.1252") {
			enc = "windows-1252"
		}
		if isASCII(w.Input) && !strings.Contains(string(w.Schema), `"encoding"`) {
			s := strings.Replace(string(w.Schema), `"parser_settings": {`, `"parser_settings": { "encoding": "`+enc+`",`, 1)
			if s != string(w.Schema) {
				w.Schema = []byte(s)
				w.SetTag("encoding", enc)
				w.Name += "+" + enc
			}
		}
	}
	return w
}

func isASCII(b []byte) bool {
	for _, c := range b {
		if c >= 0x80 {
			return false
		}
	}
	return true
}

// baseEnv draws the per-run knobs that are held equal across compared executions.
func baseEnv(c *Ctx) run.Env {
	c.T.Begin("env")
	defer c.T.End()
	e := run.DefaultEnv()
	e.IDBase = run.DrawIDBase(c.T)
	e.UUIDSeed = 1 + c.T.U("env.uuid", 1<<32)
	e.EDIBuf = []int{0, 1, 16, 128, 4096}[c.T.Weighted("env.edibuf", 6, 1, 2, 1, 1)]
	return e
}

// genWorld generates a world and counts which generator features it has (world tags) as reach probes.
func genWorld(c *Ctx, o world.GenOpts) *world.World {
	if o.MaxRecs == 0 && o.Family == "" {
		// long streams: most generated worlds have a handful of records (a few hundred bytes), so that
		// the 4 096-byte buffers of the reader stacks are refilled at most once; one world in ten (one
		// in four in the thorough tier) has tens to hundreds of records, i.e. many refills with a
		// record in flight at each
		den := 10
		if c.Tier == "thorough" {
			den = 4
		}
		if c.T.Chance("world.long", 1, den) {
			o.MinRecs = []int{30, 60, 120, 300}[c.T.Weighted("world.long.recs", 4, 3, 2, 1)]
			o.MaxRecs = o.MinRecs + 12
		}
	}
	w := world.Generate(c.T, o)
	if len(w.Input) > 2*4096 {
		c.Hit("world.input-spans-more-than-two-4096-byte-buffers")
	}
	for k := range w.Tags {
		switch k {
		case "family", "encoding", "bom":
		default:
			c.Hit("world." + k)
		}
	}
	return w
}
