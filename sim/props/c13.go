package props

import (
	"encoding/json"
	"fmt"

	"github.com/jf-tech/omniparser/idr"

	"verif/sim/run"
	"verif/sim/simio"
	"verif/sim/world"
)

func init() {
	register(&Info{
		ID: "C13", Fn: runC13,
		Rule: "one case = (world, cache configuration): the world is a corpus sample or a generated multi-record schema+input biased to collide cache keys (textually identical declarations under arrays and objects, one template at two cursors, xpath_dynamic, javascript_with_context); the configuration independently draws node pooling {on, off, emptied after record k}, transform-result cache {on, off}, xpath/regexp cache {default, capacity 1, flushed after record k}, JS caching {on, off}, JS program / node-JSON cache {default, capacity 1}. The transcript must equal the all-defaults transcript. Non-trivial = the configuration differs from the defaults and the world has >= 2 records; distinct = distinct (world hash, configuration).",
		Real: commonReal, Simulated: append(append([]string{}, commonSim...), "cache capacities and on/off switches (exported cache variables, hooks H1-H3)"),
		Stub:   []string{"when the transform-result cache is the varied knob: a harness re-implementation of the 12-line ingester.Read loop over the real format readers and ParseNode (compared with itself, cache on vs. off)"},
		Assume: []string{"the reference is the same build with every cache at its default; no expected outputs are trusted"},
	})
}

type c13cfg struct {
	env      run.Env
	emptyAt  int
	flushAt  int
	tcOff    bool // transform-result cache off (stub ingester on both sides)
	describe []string
}

func drawC13cfg(c *Ctx, base run.Env) c13cfg {
	c.T.Begin("c13.cfg")
	defer c.T.End()
	g := c13cfg{env: base, emptyAt: -1, flushAt: -1}
	add := func(s string) { g.describe = append(g.describe, s); c.Count("config."+s, 1) }
	switch c.T.Weighted("c13.pool", 3, 2, 2) {
	case 1:
		g.env.NodePool = false
		add("node-pool-off")
	case 2:
		g.emptyAt = 1 + c.T.Intn("c13.emptyAt", 5)
		add("pools-emptied-after-record")
	}
	if c.T.Weighted("c13.tc", 3, 2) == 1 {
		g.tcOff = true
		add("transform-cache-off")
	}
	switch c.T.Weighted("c13.xpath", 3, 2, 2) {
	case 1:
		g.env.XPathCap, g.env.RegexCap = 1, 1
		add("xpath-regex-cache-capacity-1")
	case 2:
		g.flushAt = 1 + c.T.Intn("c13.flushAt", 5)
		add("caches-flushed-after-record")
	}
	switch c.T.Weighted("c13.js", 3, 2, 2) {
	case 1:
		g.env.JSCacheOff = true
		add("js-caching-off")
	case 2:
		g.env.JSProgCap, g.env.NodeJSONCap = 1, 1
		add("js-program-and-nodejson-cache-capacity-1")
	}
	return g
}

// ownText is what the documentation of idr.Node.InnerText says it returns - the texts below the
// node concatenated in document order, attribute nodes left out - computed from the links alone.
func ownText(n *idr.Node) string {
	if n.Type == idr.TextNode {
		return n.Data
	}
	s := ""
	for ch := n.FirstChild; ch != nil; ch = ch.NextSibling {
		if ch.Type != idr.AttributeNode {
			s += ownText(ch)
		}
	}
	return s
}

// c13TextProbe: after every delivered record the text of one node - the record or its ancestor
// `level` steps up, the same one for the whole run - is asked for through the node's public accessor
// and compared with the text the tree holds at that moment. The ancestors of a record live as long
// as the stream and change with every record; whatever the accessor keeps must not show. (Only one
// level per run is asked: asking every level would itself refresh whatever is kept at each.)
type c13TextProbe struct {
	level    int
	mismatch string
}

func (p *c13TextProbe) look(i int, n *idr.Node) {
	if p == nil || p.level < 0 || p.mismatch != "" || n == nil {
		return
	}
	a := n
	for k := 0; k < p.level && a.Parent != nil; k++ {
		a = a.Parent
	}
	if got, want := a.InnerText(), ownText(a); got != want {
		p.mismatch = fmt.Sprintf("after record #%d: InnerText() of the node %d level(s) above the record (%q) says %q, the tree holds %q", i+1, p.level, a.Data, clipS(got, 200), clipS(want, 200))
	}
}

func c13Drive(c *Ctx, w *world.World, env run.Env, emptyAt, flushAt int, stub, tcOff bool, probe ...*c13TextProbe) *run.Transcript {
	env.Apply()
	rd := simio.NewReader(w.Input, simio.Whole(len(w.Input)))
	delivered := 0
	opts := run.Opts{OnRecord: func(i int, n *idr.Node) {
		for _, p := range probe {
			p.look(i, n)
		}
		delivered++
		if delivered == emptyAt {
			run.EmptyPools()
		}
		if delivered == flushAt {
			env.FlushCaches()
		}
	}}
	var tr *run.Transcript
	if stub {
		tr = run.DriveStub(w, rd, tcOff, opts)
	} else {
		tr = run.Drive(w, rd, opts)
	}
	c.Events += int64(rd.Stats.Reads + len(tr.Entries))
	return tr
}

// dropKey removes a top-level key from a JSON object text.
func dropKey(js, key string) string {
	var m map[string]json.RawMessage
	if json.Unmarshal([]byte(js), &m) != nil {
		return js
	}
	delete(m, key)
	b, _ := json.Marshal(m)
	return string(b)
}

func runC13(c *Ctx) []Violation {
	var w *world.World
	fam := c.T.Weighted("c13.family", 2, 3, 5, 2)
	switch fam {
	case 0:
		w = pickWorld(c, worldOpts{CorpusWeight: 1})
	case 1:
		w = genWorld(c, world.GenOpts{MinRecs: 2, MaxRecs: 10})
	case 2:
		w = genWorld(c, world.GenOpts{MinRecs: 2, MaxRecs: 10, Family: "collide"})
	default:
		w = genWorld(c, world.GenOpts{MinRecs: 2, MaxRecs: 8, Family: "ancestor-js", Formats: []string{"xml", "json", "edi", "csv2", "fixedlength2", "fixed-length"}})
	}
	if fam != 0 {
		c.Count("world.format."+w.Format, 1)
		c.Count("world.family."+[]string{"corpus", "general", "collide", "ancestor-js"}[fam], 1)
		c.SigMix(w.Hash())
	}
	base := baseEnv(c)
	cfg := drawC13cfg(c, base)
	c.Note("world %s; reference env %s", w.Name, base)
	c.Note("configuration under test: %v (%s)", cfg.describe, cfg.env)
	// (the same node is looked at in both runs, so the look itself cannot make them differ)
	tp1 := &c13TextProbe{level: c.T.Intn("c13.textprobe.level", 5) - 1}
	tp2 := &c13TextProbe{level: tp1.level}
	ref := c13Drive(c, w, base, -1, -1, cfg.tcOff, false, tp1)
	got := c13Drive(c, w, cfg.env, cfg.emptyAt, cfg.flushAt, cfg.tcOff, cfg.tcOff, tp2)
	if tp1.level >= 0 {
		c.Count("node-text-probe.level-"+fmt.Sprint(tp1.level), 1)
	}
	for _, tp := range []*c13TextProbe{tp1, tp2} {
		if tp.mismatch != "" {
			v := viol("C13.node-text", w.Format+": what a node's accessor keeps shows: "+tp.mismatch, "world: "+w.Name)
			if len(w.Schema) < 8000 {
				v.Detail = append(v.Detail, "schema: "+string(w.Schema))
			}
			if len(w.Input) < 3000 {
				v.Detail = append(v.Detail, fmt.Sprintf("input: %q", string(w.Input)))
			}
			return []Violation{v}
		}
	}
	rk, gk := ref.Keys(), got.Keys()
	c.Ev("c13", cfg.describe, rk, gk)
	for _, s := range cfg.describe {
		c.SigMix(uint64(len(s))*1315423911 + uint64(s[0]))
	}
	c.SigMix(uint64(cfg.emptyAt+1)<<8 | uint64(cfg.flushAt+1))
	if len(cfg.describe) > 0 && len(ref.Entries) >= 3 {
		c.Nontrivial = true
	}
	c.Sample = map[string]interface{}{"world": w.Name, "configuration": cfg.describe, "results": len(ref.Entries)}
	d := run.FirstDiff(rk, gk)
	if d < 0 && cfg.tcOff {
		// Both runs above went through the harness's re-implementation of the ingester loop, which makes
		// a fresh evaluation context per record as the library's own loop does. The library's own loop
		// must give the same results: if it does not, its per-record transform cache is not per record.
		real := c13Drive(c, w, base, -1, -1, false, false)
		if dd := run.FirstDiff(real.Keys(), rk); dd >= 0 {
			v := viol("C13.transform-cache-scope", fmt.Sprintf("%s: result #%d of the library's ingester differs from a run that evaluates every record in a fresh context with an empty transform cache", w.Format, dd+1),
				"world: "+w.Name, "library ingester:               "+run.ShowKey(real.Keys(), dd), "fresh context for every record: "+run.ShowKey(rk, dd))
			if len(w.Schema) < 8000 {
				v.Detail = append(v.Detail, "schema: "+string(w.Schema))
			}
			if len(w.Input) < 3000 {
				v.Detail = append(v.Detail, fmt.Sprintf("input: %q", string(w.Input)))
			}
			return []Violation{v}
		}
	}
	if d < 0 {
		return nil
	}
	v := viol("C13.transcript", fmt.Sprintf("%s: result #%d differs between all caches at defaults and %v", w.Format, d+1, cfg.describe),
		"world: "+w.Name, fmt.Sprintf("configuration: %v (%s)", cfg.describe, cfg.env),
		"all defaults:        "+run.ShowKey(rk, d), "under configuration: "+run.ShowKey(gk, d))
	if len(w.Schema) < 8000 {
		v.Detail = append(v.Detail, "schema: "+string(w.Schema))
	}
	if len(w.Input) < 3000 {
		v.Detail = append(v.Detail, fmt.Sprintf("input: %q", string(w.Input)))
	}
	// known finding F2: javascript_with_context on a node that outlives the record reads a stale
	// node-JSON cache entry; in the ancestor-js family that is exactly the "kanc" output field.
	if w.Tag("family") == "ancestor-js" && c.FindingOpen("nodejson-cache-stale-for-ancestors") && len(ref.Entries) == len(got.Entries) {
		same := true
		for i := range ref.Entries {
			a, b := ref.Entries[i], got.Entries[i]
			if a.Class != b.Class || a.Err != b.Err || a.Checksum != b.Checksum || dropKey(a.Out, "kanc") != dropKey(b.Out, "kanc") {
				same = false
			}
		}
		if same {
			v.Finding = "nodejson-cache-stale-for-ancestors"
			v.What = "javascript_with_context on an ancestor of the record (xpath '..') sees a stale _node: NodeToJSONCache is keyed by node ID and the ancestor keeps its ID while its children change"
		}
	}
	return []Violation{v}
}
