package props

import (
	"fmt"
	"strings"

	"verif/sim/run"
	"verif/sim/simio"
	"verif/sim/world"
)

func init() {
	register(&Info{
		ID: "C16", Fn: runC16,
		Rule: "one case = (world, delivery plan, stream fault): fault offset drawn by class {before first byte, in header, inside a record, between records, at end in place of EOF, anywhere} x kind {persistent EIO, transient-then-persistent EIO} x {error alone, error together with data}; the fault-free reference uses the same delivery plan. Non-trivial = the fault actually fired (the reader returned the error to the library); distinct = distinct (world hash, plan signature incl. fault).",
		Real: commonReal, Simulated: commonSim,
		Assume: []string{"purely transient errors (never followed by a persistent one) are outside the property's quantifier and are not generated"},
	})
}

// drawStreamFault draws an EIO fault for the world.
func drawStreamFault(c *Ctx, w *world.World) (simio.Fault, int) {
	c.T.Begin("fault")
	defer c.T.End()
	n := len(w.Input)
	off, class := simio.DrawFaultOffset(c.T, n, w.Recs)
	edgeLong := false
	if c.T.Chance("fault.buffer-edge", 1, 5) {
		// the instant one of the buffers of the reader stack is exactly full: k*4096 bytes into a line
		// (the line readers collect a long line buffer by buffer; the buffer starts where the line
		// does), or k*128 / k*512 / k*4096 bytes into the stream (scanner, decoder and bufio refills)
		var cand []int
		in := w.Input
		start := 0
		for i := 0; i <= n; i++ {
			if i == n || in[i] == '\n' {
				for k := 1; start+k*4096 < i && len(cand) < 64; k++ {
					cand = append(cand, start+k*4096)
				}
				start = i + 1
			}
		}
		long := len(cand)
		for _, b := range []int{128, 512, 4096} {
			for k := 1; k*b < n && k <= 6; k++ {
				cand = append(cand, k*b)
			}
		}
		if len(cand) > 0 {
			i := c.T.Intn("fault.buffer-edge.which", len(cand))
			if long > 0 && c.T.Chance("fault.buffer-edge.in-a-long-line", 3, 4) {
				i = c.T.Intn("fault.buffer-edge.long", long)
				edgeLong = true
				c.Hit("fault.at-a-multiple-of-4096-bytes-into-a-long-line")
			}
			off = cand[i] + c.T.Weighted("fault.buffer-edge.jitter", 4, 1, 1) % 3
			if j := off - cand[i]; j == 2 {
				off = cand[i] - 1
			}
			if off > n {
				off = n
			}
			class = simio.OffAny
			c.Count("fault.at-a-buffer-edge", 1)
		}
	}
	f := simio.Fault{Kind: simio.FaultPersistent, Off: off}
	if edgeLong && off < n && c.T.Chance("fault.buffer-edge.scenario", 2, 3) {
		// the scenario this class exists for, drawn as a whole: the reader fails once, with nothing in
		// hand, at the moment a long line has filled the buffer; the input goes on; the failure that
		// stays comes anywhere behind
		f.Kind = simio.FaultTransient
		f.Extra = c.T.Intn("fault.extra.far", n-off+1)
		f.ErrKind = c.T.Weighted("fault.errkind", 6, 2, 2)
		return f, class
	}
	if c.T.Weighted("fault.kind", 3, 2) == 1 && off < n {
		f.Kind = simio.FaultTransient
		f.Extra = c.T.Intn("fault.extra", minInt(n-off, 300)+1)
		if c.T.Chance("fault.extra.long", 1, 3) {
			// the persistent failure may come much later - anywhere up to the end of the input (what a
			// swallowed transient failure has torn apart is then followed by further results)
			f.Extra = c.T.Intn("fault.extra.far", n-off+1)
		}
	}
	f.WithData = c.T.Chance("fault.withData", 1, 4)
	f.ErrKind = c.T.Weighted("fault.errkind", 6, 2, 2)
	return f, class
}

func minInt(a, b int) int {
	if a < b {
		return a
	}
	return b
}

// recordsBefore counts target records lying entirely before off.
func recordsBefore(w *world.World, off int) int {
	k := 0
	for _, r := range w.Recs {
		if r.End <= off {
			k++
		}
	}
	return k
}

// lineInterior reports whether off is strictly inside a line of the input (not at a line
// boundary): the partial-line situation of bufio.ReadLine.
func lineInterior(in []byte, off int) bool {
	if off <= 0 || off >= len(in) {
		return false
	}
	return in[off-1] != '\n'
}

func runC16(c *Ctx) []Violation {
	var w *world.World
	if c.T.Chance("c16.unmatched-trailer-family", 1, 14) {
		// own scenario family of an open known finding: old fixed-length, header/footer envelopes, a
		// last line that no envelope declares
		w = genWorld(c, world.GenOpts{Formats: []string{"fixed-length"}, UnmatchedTrailer: true, Encodings: true})
		c.Count("world.family.unmatched-trailer", 1)
	} else {
		w = pickWorld(c, worldOpts{CorpusWeight: 1, GenWeight: 3, Encodings: true})
	}
	env := baseEnv(c)
	if c.T.Chance("c16.damaged-schema", 1, 6) {
		// "all inputs of all formats" are read under whatever schema NewSchema accepts: the schema of
		// this case carries a structure-level storage fault (the kinds C03 uses) that NewSchema lets
		// through - odd row indices, occurrence bounds, delimiters, xpaths. The reference is the
		// fault-free run under the same damaged schema; the record map no longer describes what a
		// record is, so the clause that counts records (late) does not apply.
		for try := 0; try < 4; try++ {
			ds, d, kinds := simio.DamageJSON(c.T, w.Schema)
			if len(d) == 0 {
				continue
			}
			env.Apply()
			if s, es, ps := run.NewSchema("sim-schema", ds); s == nil || es != "" || ps != "" {
				c.Count("schema-damage.rejected-by-NewSchema", 1)
				continue
			}
			ww := w.Clone()
			ww.Schema, ww.Recs = ds, nil
			ww.Name = w.Name + " + schema damage"
			w = ww
			for _, k := range kinds {
				c.Count("fault.schema."+k, 1)
			}
			c.Count("schema-damage.accepted", 1)
			c.Note("schema storage faults (accepted by NewSchema): %v", d)
			c.Note("damaged schema: %s", clipS(string(ds), 4000))
			break
		}
	}
	plan := simio.DrawPlan(c.T, w.Input)
	c.Note("world %s (format %s, input %d bytes); env %s", w.Name, w.Format, len(w.Input), env)
	c.Note("delivery plan: %s", plan.String())
	// sweep mode: every fault position of a small input, one fault kind (fault enumeration per world)
	if len(w.Input) <= 400 && c.T.Chance("c16.sweep", 1, 24) {
		kind := simio.FaultPersistent
		extra := 0
		if c.T.Bool("c16.sweep.transient") {
			kind = simio.FaultTransient
			extra = 1 + c.T.Intn("c16.sweep.extra", 40)
		}
		ek := c.T.Weighted("c16.sweep.errkind", 4, 1, 1)
		c.Note("sweep over all %d fault positions, kind %s, error value kind %d", len(w.Input)+1, simio.FaultName(kind), ek)
		c.Count("sweeps", 1)
		var known []Violation
		for off := 0; off <= len(w.Input); off++ {
			f := simio.Fault{Kind: kind, Off: off, ErrKind: ek}
			if kind == simio.FaultTransient {
				if off >= len(w.Input) {
					continue
				}
				f.Extra = minInt(extra, len(w.Input)-off)
			}
			vs := c16Case(c, w, env, plan, f, simio.OffAny)
			for _, v := range vs {
				if v.Finding == "" {
					return []Violation{v}
				}
				known = append(known, v)
			}
		}
		if len(known) > 0 {
			return known[:1]
		}
		return nil
	}
	fault, class := drawStreamFault(c, w)
	if w.Tag("unmatched-trailing-line") == "1" && c.T.Chance("c16.fault-in-the-unmatched-line", 2, 3) {
		// the fault this family exists for: the failure comes together with (part of) the last line
		if at := strings.LastIndex(string(w.Input), world.UnmatchedTrailerLine[:4]); at >= 0 {
			fault = simio.Fault{Kind: simio.FaultPersistent, Off: at + 1 + c.T.Intn("c16.fault-in-the-unmatched-line.off", len(w.Input)-at), WithData: true, ErrKind: fault.ErrKind}
			class = simio.OffAny
		}
	}
	c.Note("fault: %s (class %s)", fault.String(), simio.OffClassName(class))
	return c16Case(c, w, env, plan, fault, class)
}

// c16Case runs one (world, plan, fault) case against the fault-free run under the same plan.
func c16Case(c *Ctx, w *world.World, env run.Env, plan simio.Plan, fault simio.Fault, class int) []Violation {
	// fault-free reference under the same delivery plan
	env.Apply()
	rrd := simio.NewReader(w.Input, plan)
	ref := run.Drive(w, rrd, run.Opts{})
	rk := ref.Keys()
	c.Events += int64(rrd.Stats.Reads + len(ref.Entries))
	if ref.HitReadLimit || ref.SchemaPanic != "" || ref.TransformPanic != "" {
		return nil // a fault-free run that panics or does not end is C03's subject, not a reader failure
	}

	fplan := plan
	fplan.Fault = fault
	env.Apply()
	frd := simio.NewReader(w.Input, fplan)
	maxReads := len(ref.Entries) + 2
	if ref.TransformErr != "" || ref.SchemaErr != "" {
		maxReads = 4
	}
	// drive a few reads beyond the bound so that "endless" is told apart from "late"
	got := run.Drive(w, frd, run.Opts{MaxReads: maxReads + 8})
	gk := got.Keys()
	c.Events += int64(frd.Stats.Reads + len(got.Entries))
	c.Ev("c16", plan.Sig(), fplan.Sig(), rk, gk, frd.Stats.ErrAtRead)
	c.SigMix(fplan.Sig())
	st := frd.Stats
	c.Sample = map[string]interface{}{"world": w.Name, "format": w.Format, "plan": plan.Mode, "fault": fault.String(), "class": simio.OffClassName(class), "fired": st.FaultFired, "results_ref": len(ref.Entries), "results_faulty": len(got.Entries)}
	if !st.FaultFired {
		c.Count("fault.planned-but-not-reached", 1)
		return nil
	}
	c.Nontrivial = true
	c.Count("fault."+simio.FaultName(fault.Kind), 1)
	c.Count("fault.class."+simio.OffClassName(class), 1)
	if fault.WithData {
		c.Count("fault.error-with-data", 1)
	}
	c.Count("fault.error-value."+[]string{"plain", "io.ErrUnexpectedEOF", "wraps-io.EOF"}[fault.ErrKind], 1)
	if st.BytesAfterErr > 0 {
		c.Count("fault.transient-bytes-delivered-after-error", 1)
	}
	if lineInterior(w.Input, st.ErrAtOffset) {
		c.Hit("fault.inside-a-line")
	}

	det := []string{
		"world: " + w.Name,
		"delivery plan: " + plan.String(),
		"fault: " + fault.String() + fmt.Sprintf(" (first returned by reader call #%d at stream offset %d)", st.ErrAtRead+1, st.ErrAtOffset),
	}
	describe := func() []string {
		d := append([]string{}, det...)
		d = append(d, "fault-free reference:")
		for _, l := range ref.Describe(12) {
			d = append(d, "   "+l)
		}
		d = append(d, "with the fault:")
		for _, l := range got.Describe(12) {
			d = append(d, "   "+l)
		}
		return d
	}
	finding := func(clause string) string {
		transient := fault.Kind == simio.FaultTransient
		interior := lineInterior(w.Input, st.ErrAtOffset)
		// the csv defect's call site: the reader error comes back as a continuable
		// "failed to fetch record" result (fileformat/csv/reader.go:52-54)
		csvSite := false
		for _, e := range got.Entries {
			if e.Class == run.ClsContinuable && strings.Contains(e.Err, "failed to fetch record: "+fault.Err().Error()) {
				csvSite = true
			}
		}
		switch {
		case w.Format == "fixed-length" && w.Tag("unmatched-trailing-line") == "1" && clause == "C16.eof-not-fatal" &&
			st.ErrAtOffset >= strings.LastIndex(string(w.Input), world.UnmatchedTrailerLine[:4]) && c.FindingOpen("fixedlength-headerfooter-unmatched-line-hides-reader-error"):
			// the reader stops at a line that matches no header and never looks at what the input
			// reader returned together with it
			return "fixedlength-headerfooter-unmatched-line-hides-reader-error"
		case w.Format == "csv" && csvSite && c.FindingOpen("csv-io-error-continuable"):
			return "csv-io-error-continuable"
		case w.Format == "fixed-length" && w.Tag("envelope") == "header_footer" && interior && clause == "C16.eof-not-fatal" && c.FindingOpen("fixedlength-headerfooter-io-error-becomes-eof"):
			return "fixedlength-headerfooter-io-error-becomes-eof"
		case (w.Format == "fixed-length" || w.Format == "fixedlength2") && transient && interior && c.FindingOpen("fixedlength-transient-error-with-partial-line-swallowed"):
			return "fixedlength-transient-error-with-partial-line-swallowed"
		}
		return ""
	}
	mk := func(clause, what string) []Violation {
		v := viol(clause, w.Format+": "+what, describe()...)
		v.Finding = finding(clause)
		if v.Finding != "" {
			v.What = w.Format + ": " + what
		}
		return []Violation{v}
	}

	// NewTransform failing is a terminal, fatal outcome.
	if got.TransformPanic != "" || got.SchemaPanic != "" {
		return nil // panics are C03's subject
	}
	if got.TransformErr != "" {
		c.Count("outcome.newtransform-error", 1)
		return nil
	}
	// locate the terminal result
	term := -1
	for i, e := range got.Entries {
		if e.Class == run.ClsPanic || e.Class == run.ClsMalformed {
			return nil // C03 / C01
		}
		if e.Terminal() {
			term = i
			break
		}
	}
	if term < 0 || term >= maxReads {
		if term < 0 {
			return mk("C16.endless", fmt.Sprintf("after the reader failed, %d Reads (fault-free run needs %d) produced no terminal result: endless per-record failures", len(got.Entries), len(ref.Entries)))
		}
		return mk("C16.endless", fmt.Sprintf("terminal result only at Read #%d although the fault-free run ends after %d results", term+1, len(ref.Entries)))
	}
	c.Count("outcome.terminal-"+got.Entries[term].Class, 1)
	if got.Entries[term].Class == run.ClsEOF {
		return mk("C16.eof-not-fatal", "the reader returned an I/O error but the transform ended with io.EOF as if the stream had ended normally")
	}
	// late: no more than P+2 non-terminal results before the fatal one
	if len(w.Recs) > 0 {
		p := recordsBefore(w, st.ErrAtOffset)
		if term > p+2 {
			return mk("C16.late", fmt.Sprintf("%d non-terminal results precede the fatal error although only %d records lie before the failing offset %d", term, p, st.ErrAtOffset))
		}
	}
	// prefix: every result before the fatal one, except possibly the last, equals the reference
	for i := 0; i < term-1; i++ {
		if i >= len(rk) || gk[i] != rk[i] {
			vs := mk("C16.prefix", fmt.Sprintf("result #%d (not the last before the fatal error at #%d) differs from the fault-free run", i+1, term+1))
			if vs[0].Finding == "" && w.Format == "json" && c.FindingOpen("json-error-line-depends-on-readahead") &&
				i < len(rk) && jsonNearLine.ReplaceAllString(gk[i], "") == jsonNearLine.ReplaceAllString(rk[i], "") {
				vs[0].Finding = "json-error-line-depends-on-readahead"
			}
			vs[0].Detail = append(vs[0].Detail, "reference result: "+run.ShowKey(rk, i), "faulty run result: "+run.ShowKey(gk, i))
			return vs
		}
	}
	return nil
}
