package props

import (
	"sort"
	"os"
	"fmt"
	"github.com/jf-tech/omniparser/idr"

	"github.com/jf-tech/omniparser"

	"verif/sim/run"
	"verif/sim/sched"
	"verif/sim/simio"
	"verif/sim/world"
)

func init() {
	register(&Info{
		ID: "C14", Fn: runC14, NeedsRace: true,
		Rule: "one case = (2-6 tasks, their worlds and schema sharing, delivery plans, seeded interleaving): every task drives its own Transform to the end; tasks share one Schema value, use separate Schema values built from the same bytes, or use different schemas/formats (with and without javascript). The scheduler releases exactly one task at a time and picks the next one from the tape at every reader call, every verif_probe call inside record evaluation and every API boundary. Oracles: each task's transcript equals its solo transcript; in the race build (half of the workers) no race report, the hand-off being invisible to the detector. Non-trivial = at least 2 tasks and at least one task switch; distinct = distinct (worlds, plans, interleaving hash).",
		Real: commonReal, Simulated: append(append([]string{}, commonSim...), "which goroutine runs next (seeded scheduler, raw-pipe hand-off)"),
		Assume: []string{"tasks are pre-empted only at harness-owned points (reader calls, verif_probe, API boundaries); conflicts inside uninterrupted stretches are still visible to the race detector", "schemas are created before the tasks start: the property is about driving transforms"},
	})
	register(&Info{ID: "SELFRACE", Fn: runSelfRace, RaceOnly: true, Rule: "machinery self-test: two tasks increment a plain shared counter under the scheduler; the race build must report it"})
}

type c14task struct {
	w      *world.World
	schema omniparser.Schema
	plan   simio.Plan
	// the task makes a Schema of its own, from the same bytes and the same (shared) Extension values,
	// while the other tasks run: NewSchema is as much a user of process-wide state as a Transform is
	ownSchema bool
	solo      *run.Transcript
	conc      *run.Transcript
	reads     int
}

func runC14(c *Ctx) []Violation {
	c.T.Begin("c14.setup")
	k := 2 + c.T.Weighted("c14.tasks", 4, 3, 2, 1, 1)
	nWorlds := 1 + c.T.Intn("c14.worlds", k)
	ext := run.ProbeExtension()
	env := baseEnv(c)
	env.Apply()
	var worlds []*world.World
	for i := 0; i < nWorlds; i++ {
		var w *world.World
		if c.T.Weighted("c14.src", 1, 2) == 0 {
			w = pickWorld(c, worldOpts{CorpusWeight: 1})
			if len(w.Input) > 6000 || len(w.Schema) > 50000 {
				w = genWorld(c, world.GenOpts{Probe: true, MaxRecs: 8})
			}
		} else {
			w = genWorld(c, world.GenOpts{Probe: true, MaxRecs: 8, Encodings: true})
			c.Count("world.format."+w.Format, 1)
		}
		worlds = append(worlds, w)
	}
	if c.T.Chance("c14.near-copy-world", 1, 4) {
		// one more world: a near-copy of the first one's schema (one flag flipped, one string in another
		// letter case or with a blank added, ...) over the same input - two transforms whose schemas a
		// process-wide cache with a lossy key cannot tell apart, running interleaved
		for try := 0; try < 3; try++ {
			ns, d := simio.SiblingJSON(c.T, worlds[0].Schema)
			if d == "" {
				continue
			}
			if s, es, ps := run.NewSchema("sim-schema", ns, ext); s == nil || es != "" || ps != "" {
				continue
			}
			nw := worlds[0].Clone()
			nw.Schema = ns
			nw.Name = worlds[0].Name + " with " + d
			worlds = append(worlds, nw)
			nWorlds++
			c.Count("worlds.near-copy-of-another-task's-schema", 1)
			break
		}
	}
	shared := map[int]omniparser.Schema{}
	tasks := make([]*c14task, k)
	for i := range tasks {
		wi := c.T.Intn("c14.world", nWorlds)
		t := &c14task{w: worlds[wi]}
		share := c.T.Bool("c14.share")
		if s, ok := shared[wi]; ok && share {
			t.schema = s
			c.Count("sharing.same-schema-value", 1)
		} else {
			s, es, ps := run.NewSchema("sim-schema", t.w.Schema, ext)
			if s == nil {
				panic("harness: world rejected: " + es + ps)
			}
			t.schema = s
			if _, ok := shared[wi]; ok {
				c.Count("sharing.separate-schema-same-bytes", 1)
			} else {
				shared[wi] = s
			}
		}
		t.plan = simio.DrawPlan(c.T, t.w.Input)
		t.ownSchema = c.T.Chance("c14.schema-made-in-task", 1, 3)
		tasks[i] = t
		c.SigMix(t.w.Hash())
		c.SigMix(t.plan.Sig())
		if t.w.UsesJS {
			c.Count("tasks.with-javascript", 1)
		}
	}
	policy := c.T.Weighted("c14.policy", 3, 3, 1)
	// whether the Schema values the tasks share are used for the first time when the tasks start
	// (the serial reference then runs on twins made from the same bytes), or have been through a
	// whole transform each before (the reference runs on the very values): what a schema sets up at
	// first use is set up by several tasks at once in the first case
	firstUseConcurrent := c.T.Bool("c14.first-use-is-concurrent")
	c.T.End()
	c.Count("tasks", int64(k))
	c.Note("%d tasks over %d worlds; env %s; policy %d", k, nWorlds, env, policy)
	for i, t := range tasks {
		c.Note("task %d: %s, plan %s", i, t.w.Name, t.plan.Mode)
	}
	// solo transcripts (the serial reference)
	if firstUseConcurrent {
		c.Count("sharing.first-use-of-the-shared-schemas-is-concurrent", 1)
	}
	twins := map[omniparser.Schema]omniparser.Schema{}
	// (instrumented flavour) the shared-state statements a serial run passes the first time a Schema
	// value is used and not the second time: what a schema sets up at first use. Per task index.
	firstUseSites := map[int][]int{}
	for ti, t := range tasks {
		rd := simio.NewReader(t.w.Input, t.plan)
		ss := t.schema
		newTwin := false
		if firstUseConcurrent {
			if twins[ss] == nil {
				tw, es, ps := run.NewSchema("sim-schema", t.w.Schema, ext)
				if tw == nil {
					panic("harness: world rejected the second time: " + es + ps)
				}
				twins[ss] = tw
				newTwin = true
			}
			ss = twins[ss]
		}
		if newTwin && sched.Instrumented {
			// (a throw-away twin goes first: what the *process* sets up at the first use of anything -
			// validators, tables, caches - is then set up, whatever ran in this process before, and
			// the sites found below belong to the Schema value alone; a replay in a fresh process
			// finds the same ones)
			if tw0, _, _ := run.NewSchema("sim-schema", t.w.Schema, ext); tw0 != nil {
				run.DriveSchema(tw0, t.w, simio.NewReader(t.w.Input, t.plan), run.Opts{MaxReads: 400, CustomParam: func() {}}, nil)
			}
			first, second := map[int]bool{}, map[int]bool{}
			sched.SiteRecorder = func(site int) { first[site] = true }
			t.solo = run.DriveSchema(ss, t.w, rd, run.Opts{MaxReads: 400, CustomParam: func() {}}, nil)
			sched.SiteRecorder = func(site int) { second[site] = true }
			rd2 := simio.NewReader(t.w.Input, t.plan)
			run.DriveSchema(ss, t.w, rd2, run.Opts{MaxReads: 400, CustomParam: func() {}}, nil)
			sched.SiteRecorder = nil
			var only []int
			for site := range first {
				if !second[site] {
					only = append(only, site)
				}
			}
			sort.Ints(only)
			if len(only) > 0 {
				firstUseSites[ti] = only
				c.Count("first-use-only-shared-state-statements", int64(len(only)))
			}
			c.Events += int64(rd.Stats.Reads + len(t.solo.Entries))
			continue
		}
		t.solo = run.DriveSchema(ss, t.w, rd, run.Opts{MaxReads: 400, CustomParam: func() {}}, nil)
		c.Events += int64(rd.Stats.Reads + len(t.solo.Entries))
	}
	// concurrent pass under the seeded scheduler
	env.Apply()
	s := sched.New(c.T)
	s.Policy = policy
	s.Soft = sched.DrawSoft(c.T, k)
	if len(firstUseSites) > 0 && k >= 2 && c.T.Chance("c14.park-at-first-use", 3, 4) {
		// one task is stopped at a statement that only the first use of its (shared, so far unused)
		// Schema passes - in the middle of whatever the schema sets up lazily - and stays there while
		// the others run: they meet it there, or go through their own first use of the same value with
		// the set-up half done
		var owners []int
		for ti := range firstUseSites {
			owners = append(owners, ti)
		}
		sort.Ints(owners)
		// (the task whose serial run was recorded, or any other task sharing its Schema value)
		rec := owners[c.T.Intn("c14.park.recorded", len(owners))]
		var sharers []int
		for ti, t := range tasks {
			if t.schema == tasks[rec].schema {
				sharers = append(sharers, ti)
			}
		}
		owner := sharers[c.T.Intn("c14.park.owner", len(sharers))]
		sites := firstUseSites[rec]
		m := &sched.MeetCfg{Owner: owner}
		for r, rounds := 0, 1+c.T.Intn("c14.park.rounds", 3); r < rounds; r++ {
			m.Triggers = append(m.Triggers, 1)
			m.Sites = append(m.Sites, sites[c.T.Intn("c14.park.site", len(sites))])
			m.Spans = append(m.Spans, 8+c.T.Intn("c14.park.span", 120))
			m.Strict = append(m.Strict, c.T.Bool("c14.park.strict"))
		}
		for i := range s.Soft {
			s.Soft[i].Stride = 0
			s.Soft[i].Meet = nil
		}
		s.Soft[0].Meet = m
		c.Count("sched.owner-parked-at-a-first-use-only-statement", 1)
	}
	if sched.Instrumented && len(s.Soft) > 0 && s.Soft[0].SharedOnly {
		c.Count("soft-yields.shared-state-files-only", 1)
	}
	fns := make([]func(*sched.Task), k)
	for i := range tasks {
		t := tasks[i]
		fns[i] = func(st *sched.Task) {
			rd := simio.NewReader(t.w.Input, t.plan)
			rd.Yield = st.Yield
			schema := t.schema
			// (not in the instrumented flavour: NewSchema ranges over Go maps and sorts what it finds, the
			// number of statements it executes - hence every later hand-off point - would differ from
			// process to process)
			if t.ownSchema && !sched.Instrumented {
				st.Yield()
				own, es, ps := run.NewSchema("sim-schema", t.w.Schema, ext)
				if own == nil {
					panic("NewSchema failed on a schema it accepted a moment ago: " + es + ps)
				}
				schema = own
				st.Yield()
			}
			t.conc = run.DriveSchema(schema, t.w, rd, run.Opts{MaxReads: 400, Between: st.Yield, CustomParam: func() { st.Yield() }}, nil)
			t.reads = rd.Stats.Reads
		}
	}
	if os.Getenv("VERIF_EVDUMP") != "" {
		sites := map[int][]int{}
		sched.SiteDump = func(task, site int) { sites[task] = append(sites[task], site) }
		defer func() {
			for k := 0; k < 8; k++ {
				if len(sites[k]) > 0 {
					fmt.Fprintf(os.Stderr, "SITES %d %v\n", k, sites[k])
				}
			}
		}()
	}
	res := s.Run(fns)
	if n := s.Met(); n > 0 {
		c.Count("sched.two-tasks-met-at-a-shared-state-statement", int64(n))
	}
	c.Events += int64(s.Steps)
	c.Count("yields", int64(s.Steps))
	c.Count("task-switches", int64(s.Switches))
	c.SigMix(s.TraceSig())
	for _, r := range res {
		c.Count("soft-yields-taken", int64(r.SoftTaken))
	}
	if s.Switches > 0 {
		c.Nontrivial = true
	}
	if !c.Race {
		// pool behaviour is part of the deterministic execution (plain build only: race builds drop pooled items at random)
		c.Ev("node-id-counter", idr.VerifNodeIDCounter())
	}
	if os.Getenv("VERIF_EVDUMP") != "" {
		fmt.Fprintf(os.Stderr, "TRACE %v\nSOFT %+v\n", s.Trace, s.Soft)
	}
	c.Ev("c14", s.TraceSig(), s.Steps)
	c.Sample = map[string]interface{}{"tasks": k, "worlds": nWorlds, "yields": s.Steps, "switches": s.Switches, "interleaving_hash": fmt.Sprintf("%016x", s.TraceSig()), "task0": tasks[0].w.Name}
	for i, t := range tasks {
		if res[i].Panic != "" {
			return []Violation{viol("C14.crosstalk", fmt.Sprintf("task %d (%s) panicked when run concurrently: %s", i, t.w.Name, res[i].Panic), res[i].Stack)}
		}
		c.Events += int64(len(t.conc.Entries))
		sk, ck := t.solo.Keys(), t.conc.Keys()
		c.Ev(i, ck)
		if d := run.FirstDiff(sk, ck); d >= 0 {
			var names []string
			for j, o := range tasks {
				names = append(names, fmt.Sprintf("task %d: %s (plan %s)", j, o.w.Name, o.plan.Mode))
			}
			det := append(names, fmt.Sprintf("task %d result #%d", i, d+1), "alone:        "+run.ShowKey(sk, d), "concurrently: "+run.ShowKey(ck, d),
				fmt.Sprintf("schedule: %d yields, %d switches, interleaving %016x", s.Steps, s.Switches, s.TraceSig()))
			return []Violation{viol("C14.crosstalk", fmt.Sprintf("%s: a transform's results differ when other transforms run interleaved with it", t.w.Format), det...)}
		}
	}
	return nil
}

var selfRaceCounter int

func runSelfRace(c *Ctx) []Violation {
	s := sched.New(c.T)
	fns := make([]func(*sched.Task), 2)
	for i := range fns {
		fns[i] = func(st *sched.Task) {
			for j := 0; j < 20; j++ {
				selfRaceCounter++
				st.Yield()
			}
		}
	}
	s.Run(fns)
	c.Nontrivial = true
	c.SigMix(s.TraceSig())
	return nil
}
