package props

import (
	"encoding/json"
	"fmt"
	"reflect"
	"strconv"
	"strings"

	"verif/sim/run"
	"verif/sim/simio"
	"verif/sim/world"
)

// Read-level part of C20: a narrow family of csv2 schemas whose javascript /
// javascript_with_context declarations have a meaning the harness can compute itself
// (which JS type and value each typed argument has, what _node holds at the record and at an
// array child's cursor, which names a later call may see), driven through Transform.Read over a
// multi-record input and compared record by record with that stateless model.

type c20rec struct{ A, N, F, B, E string }

const c20ReadSchemaHead = `{"parser_settings":{"version":"omni.2.1","file_format_type":"csv2"},
"file_declaration":{"delimiter":"|","records":[{"name":"R","is_target":true,"columns":[
 {"name":"A","index":1},{"name":"N","index":2},{"name":"F","index":3},{"name":"B","index":4},{"name":"E","index":5}]}]},
"transform_declarations":{"FINAL_OUTPUT":{"object":{`

func jsArg(name, xpath, typ string) string {
	t := ""
	if typ != "" {
		t = `,"type":"` + typ + `"`
	}
	return `{"const":"` + name + `"},{"xpath":"` + xpath + `"` + t + `}`
}

func jsDecl(script string, ctx bool, ignoreErr bool, args ...string) string {
	fn := "javascript"
	if ctx {
		fn = "javascript_with_context"
	}
	b, _ := json.Marshal(script)
	all := append([]string{`{"const":` + string(b) + `}`}, args...)
	ie := ""
	if ignoreErr {
		ie = `,"ignore_error":true`
	}
	return `{"custom_func":{"name":"` + fn + `","args":[` + strings.Join(all, ",") + `]` + ie + `}}`
}

const c20Probe = "(typeof a === 'undefined' ? 'clean' : 'leak:' + a) + '/' + (typeof n === 'undefined' ? 'clean' : 'leak:' + n) + '/' + (typeof _node === 'undefined' ? 'nonode' : 'node')"

func describeJS(kind string, v interface{}) string {
	if v == nil {
		return "object:null"
	}
	return kind + ":" + fmt.Sprint(v)
}

func runC20Read(c *Ctx) []Violation {
	env := baseEnv(c)
	c.T.Begin("c20r")
	switch c.T.Weighted("c20r.cache", 4, 2, 2) {
	case 1:
		env.JSProgCap, env.NodeJSONCap = 1, 1
	case 2:
		env.JSCacheOff = true
	}
	// which declarations the schema has (keys sort in evaluation order)
	type declT struct {
		key, text string
		expect    func(r c20rec) (interface{}, bool) // value, present
	}
	trim := strings.TrimSpace
	strOrNil := func(s string) interface{} {
		if trim(s) == "" {
			return nil
		}
		return trim(s)
	}
	all := []declT{
		{"d01_ta", jsDecl("typeof a + ':' + a", false, false, jsArg("a", "A", "")), func(r c20rec) (interface{}, bool) {
			return describeJS("string", strOrNil(r.A)), true
		}},
		{"d02_probe", jsDecl(c20Probe, false, false, jsArg("q", "E", "")), func(r c20rec) (interface{}, bool) { return "clean/clean/nonode", true }},
		{"d03_tn", jsDecl("typeof n + ':' + n", false, false, jsArg("n", "N", "int")), func(r c20rec) (interface{}, bool) {
			return "number:" + trim(r.N), true
		}},
		{"d04_tf", jsDecl("typeof a + ':' + a", false, false, jsArg("a", "F", "float")), func(r c20rec) (interface{}, bool) {
			return "number:" + trim(r.F), true
		}},
		{"d05_tb", jsDecl("typeof a + ':' + a", false, false, jsArg("a", "B", "boolean")), func(r c20rec) (interface{}, bool) {
			return "boolean:" + trim(r.B), true
		}},
		{"d06_ctx", jsDecl("JSON.parse(_node).N + '|' + (typeof a)", true, false), func(r c20rec) (interface{}, bool) {
			return r.N + "|undefined", true
		}},
		{"d07_probe", jsDecl(c20Probe, false, false, jsArg("q", "E", "")), func(r c20rec) (interface{}, bool) { return "clean/clean/nonode", true }},
		{"d08_arr", `{"array":[{"xpath":"N",` + strings.TrimPrefix(jsDecl("'at:' + JSON.parse(_node)", true, false), "{") + `]}`, func(r c20rec) (interface{}, bool) {
			return []interface{}{"at:" + r.N}, true
		}},
		{"d09_retarr", jsDecl("[a, n, [n]]", false, false, jsArg("a", "A", ""), jsArg("n", "N", "int")), func(r c20rec) (interface{}, bool) {
			n, _ := strconv.ParseFloat(trim(r.N), 64)
			return []interface{}{strOrNil(r.A), n, []interface{}{n}}, true
		}},
		{"d10_retobj", jsDecl("({k: a, v: n * 2})", false, false, jsArg("a", "E", ""), jsArg("n", "N", "int")), func(r c20rec) (interface{}, bool) {
			n, _ := strconv.ParseFloat(trim(r.N), 64)
			return map[string]interface{}{"k": strOrNil(r.E), "v": n * 2}, true
		}},
		{"d11_throw", jsDecl("if (n >= 0) { throw new Error('x' + a); } a", false, true, jsArg("a", "A", ""), jsArg("n", "N", "int")), func(r c20rec) (interface{}, bool) {
			return nil, false // ignore_error: the failure yields no value
		}},
		{"d12_probe", jsDecl(c20Probe, false, false, jsArg("q", "E", "")), func(r c20rec) (interface{}, bool) { return "clean/clean/nonode", true }},
		{"d13_te", jsDecl("typeof a + ':' + a", false, false, jsArg("a", "E", "")), func(r c20rec) (interface{}, bool) {
			return describeJS("string", strOrNil(r.E)), true
		}},
		{"d14_cast", `{"type":"int",` + strings.TrimPrefix(jsDecl("n + 0.0", false, false, jsArg("n", "N", "int")), "{"), func(r c20rec) (interface{}, bool) {
			n, _ := strconv.ParseFloat(trim(r.N), 64)
			return n, true
		}},
	}
	cyclic := c.T.Chance("c20r.cyclic", 1, 6)
	if cyclic {
		// a script result that has no JSON value (an object containing itself), cast with "type": the
		// record must fail, nothing worse
		all = append(all, declT{"d15_cyc", `{"type":"string",` + strings.TrimPrefix(jsDecl("(function(){ var o = {}; o.self = o; return o })()", false, false, jsArg("q", "E", "")), "{"), nil})
	}
	var decls []declT
	for _, d := range all {
		if c.T.Chance("c20r.decl", 3, 4) {
			decls = append(decls, d)
		}
	}
	if len(decls) == 0 {
		decls = all[:3]
	}
	var recs []c20rec
	c.T.Repeat("c20r.rec", 2, 12, 5, 6, func(int) {
		recs = append(recs, c20rec{
			A: c.T.Pick("c20r.A", "x", "hello", " pad ", "", "é漢", "12"),
			N: fmt.Sprint(c.T.Intn("c20r.N", 1000)),
			F: c.T.Pick("c20r.F", "1.5", "-0.25", "2.5", "100.125"),
			B: c.T.Pick("c20r.B", "true", "false"),
			E: c.T.Pick("c20r.E", "", "", "y", "zz"),
		})
	})
	c.T.End()
	var parts []string
	for _, d := range decls {
		parts = append(parts, `"`+d.key+`":`+d.text)
	}
	schema := c20ReadSchemaHead + strings.Join(parts, ",") + "}}}}"
	var in strings.Builder
	for _, r := range recs {
		in.WriteString(strings.Join([]string{r.A, r.N, r.F, r.B, r.E}, "|") + "\n")
	}
	w := &world.World{Name: "c20-read-level", Format: "csv2", Schema: []byte(schema), Input: []byte(in.String())}
	plan := simio.DrawPlan(c.T, w.Input)
	env.Apply()
	rd := simio.NewReader(w.Input, plan)
	tr := run.Drive(w, rd, run.Opts{MaxReads: len(recs) + 4})
	c.Events += int64(rd.Stats.Reads + len(tr.Entries))
	c.Count("read-level.runs", 1)
	c.Count("read-level.records", int64(len(recs)))
	c.SigMix(w.Hash())
	c.Nontrivial = len(recs) >= 2
	c.Ev("c20r", tr.Keys())
	c.Sample = map[string]interface{}{"kind": "read-level", "records": len(recs), "declarations": len(decls), "env": env.String()}
	fail := func(msg string) []Violation {
		return []Violation{viol("C20.read-model", "javascript through Transform.Read does not behave as the stateless model: "+clipS(msg, 240),
			msg, "schema: "+schema, fmt.Sprintf("input: %q", in.String()), "env: "+env.String(), "delivery plan: "+plan.String())}
	}
	if tr.SchemaErr != "" || tr.TransformErr != "" {
		panic("harness: c20 read-level schema rejected: " + tr.SchemaErr + tr.TransformErr)
	}
	if len(tr.Entries) != len(recs)+1 {
		return fail(fmt.Sprintf("%d results for %d records", len(tr.Entries), len(recs)))
	}
	hasCyc := false
	for _, d := range decls {
		if d.key == "d15_cyc" {
			hasCyc = true
		}
	}
	for i, r := range recs {
		e := tr.Entries[i]
		if hasCyc {
			if e.Class != run.ClsContinuable {
				return fail(fmt.Sprintf("record #%d: a script result that contains itself must fail the record, got %s: %s", i+1, e.Class, clipS(e.Out+e.Err, 200)))
			}
			continue
		}
		if e.Class != run.ClsRecord {
			return fail(fmt.Sprintf("record #%d (%+v): expected a record, got %s: %s", i+1, r, e.Class, e.Err+e.Shape))
		}
		want := map[string]interface{}{}
		for _, d := range decls {
			if v, ok := d.expect(r); ok {
				want[d.key] = v
			}
		}
		var got map[string]interface{}
		if err := json.Unmarshal([]byte(e.Out), &got); err != nil {
			return fail(fmt.Sprintf("record #%d: output is not a JSON object: %s", i+1, e.Out))
		}
		wb, _ := json.Marshal(want)
		var wantN map[string]interface{}
		_ = json.Unmarshal(wb, &wantN)
		if !reflect.DeepEqual(got, wantN) {
			for k, v := range wantN {
				if !reflect.DeepEqual(got[k], v) {
					gb, _ := json.Marshal(got[k])
					vb, _ := json.Marshal(v)
					return fail(fmt.Sprintf("record #%d (%+v): field %s is %s, the model expects %s", i+1, r, k, gb, vb))
				}
			}
			return fail(fmt.Sprintf("record #%d (%+v): output %s has fields the model does not expect (%s)", i+1, r, e.Out, wb))
		}
	}
	return nil
}
