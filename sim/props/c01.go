package props

import (
	"errors"
	"fmt"
	"io"
	"reflect"

	"github.com/jf-tech/omniparser"
	"github.com/jf-tech/omniparser/errs"
	"github.com/jf-tech/omniparser/idr"
	"github.com/jf-tech/omniparser/schemahandler"
	"github.com/jf-tech/omniparser/transformctx"

	"verif/sim/run"
	"verif/sim/simio"
	"verif/sim/world"
)

func init() {
	register(&Info{
		ID: "C01", Fn: runC01,
		Rule: "one case = (world or scripted mock handler, stream/storage fault, delivery plan, call history): histories interleave Read and RawRecord (RawRecord before any Read, 0-3 after each Read, 3-20 further calls of both kinds after the first terminal result) and are checked call by call against an executable model of the protocol {Init, Ok, Failed, Terminal(e)}. Non-trivial = the history contains a RawRecord call in a non-Ok state or a call after a terminal result; distinct = distinct (world hash, plan+fault signature, history signature).",
		Real: commonReal, Simulated: commonSim,
		Stub:   []string{"for the 'caller-supplied handler' part only: a scripted mock SchemaHandler/Ingester registered through Extension.CreateSchemaHandler (the Transform under test is the real one)"},
		Assume: []string{"mock ingesters return a non-nil raw record and valid JSON with every success (that is the handler's side of the contract)"},
	})
}

func sameErr(a, b error) (same bool) {
	if a == nil || b == nil {
		return a == nil && b == nil
	}
	defer func() {
		if recover() != nil {
			same = reflect.TypeOf(a) == reflect.TypeOf(b) && a.Error() == b.Error()
		}
	}()
	if a == b {
		return true
	}
	return false
}

// protoModel is the executable reference model of the Read/RawRecord protocol.
type protoModel struct {
	state   string // init | ok | failed | terminal
	lastErr error
	step    int
}

func (m *protoModel) afterRead(e run.Entry) string {
	m.step++
	if m.state == "terminal" {
		if e.Class == run.ClsPanic {
			return "Read panicked after a terminal result: " + e.Err
		}
		if e.Out != "" || e.ErrVal == nil {
			return fmt.Sprintf("after terminal error %q a later Read returned (%q, %v)", m.lastErr, clipS(e.Out, 80), e.ErrVal)
		}
		if !sameErr(e.ErrVal, m.lastErr) || e.ErrVal.Error() != m.lastErr.Error() {
			return fmt.Sprintf("terminal error changed: first %q (%T), later %q (%T)", m.lastErr, m.lastErr, e.ErrVal, e.ErrVal)
		}
		return ""
	}
	switch e.Class {
	case run.ClsRecord:
		m.state, m.lastErr = "ok", nil
	case run.ClsContinuable:
		m.state, m.lastErr = "failed", e.ErrVal
	case run.ClsEOF, run.ClsFatal:
		m.state, m.lastErr = "terminal", e.ErrVal
	case run.ClsMalformed:
		return "Read result has none of the three allowed shapes: " + e.Shape
	case run.ClsPanic:
		return "" // C03's subject; the history stops here
	}
	return ""
}

func (m *protoModel) afterRaw(rr schemahandler.RawRecord, err error, panicStr string) string {
	m.step++
	if panicStr != "" {
		return "RawRecord panicked: " + panicStr
	}
	isNil := rr == nil || (reflect.ValueOf(rr).Kind() == reflect.Ptr && reflect.ValueOf(rr).IsNil())
	switch m.state {
	case "init":
		if !isNil || err == nil {
			return fmt.Sprintf("RawRecord before any Read returned (%v, %v); expected a 'call Read first' error", rr, err)
		}
	case "ok":
		if isNil || err != nil {
			return fmt.Sprintf("RawRecord after a successful Read returned (%v, %v)", rr, err)
		}
	default:
		if !isNil || err == nil {
			return fmt.Sprintf("RawRecord after a failed Read (%s) returned (%v, %v); expected that Read's error", m.state, rr, err)
		}
		if !sameErr(err, m.lastErr) {
			return fmt.Sprintf("RawRecord returned %q but the most recent Read returned %q", err, m.lastErr)
		}
	}
	return ""
}

func clipS(s string, n int) string {
	if len(s) > n {
		return s[:n] + "..."
	}
	return s
}

func runC01(c *Ctx) []Violation {
	if c.T.Weighted("c01.part", 4, 1) == 1 {
		return runC01Mock(c)
	}
	w := pickWorld(c, worldOpts{CorpusWeight: 1, GenWeight: 3, Encodings: true})
	env := baseEnv(c)
	input := w.Input
	var dmgDesc []string
	plan := simio.DrawPlan(c.T, input)
	switch c.T.Weighted("c01.fault", 3, 3, 2, 2) {
	case 1: // storage damage of the input: malformed data
		var kinds []string
		input, dmgDesc, kinds = simio.Damage(c.T, input, nil, nil, 3)
		for _, k := range kinds {
			c.Count("fault.storage."+k, 1)
		}
		plan = simio.DrawPlan(c.T, input)
	case 2: // truncation
		off, _ := simio.DrawFaultOffset(c.T, len(input), w.Recs)
		plan.Fault = simio.Fault{Kind: simio.FaultTruncate, Off: off}
	case 3: // EIO
		plan.Fault, _ = drawStreamFault(c, w)
	}
	ww := w.Clone()
	ww.Input = input
	c.Note("world %s (format %s, input %d bytes); env %s", w.Name, w.Format, len(input), env)
	if len(dmgDesc) > 0 {
		c.Note("input storage faults: %v", dmgDesc)
	}
	c.Note("delivery plan: %s", plan.String())

	// canonical history (Read;RawRecord)* for the "describes that record" clause
	env.Apply()
	crd := simio.NewReader(input, plan)
	canon := run.Drive(ww, crd, run.Opts{MaxReads: 400})
	c.Events += int64(crd.Stats.Reads + len(canon.Entries))

	env.Apply()
	rd := simio.NewReader(input, plan)
	schema, es, ps := run.NewSchema("sim-schema", ww.Schema)
	if schema == nil {
		c.Note("NewSchema failed: %s%s", es, ps)
		return nil
	}
	tr, tes, tps := run.NewTransform(schema, "sim-input", rd, ww.Ext)
	if tr == nil {
		c.Count("outcome.newtransform-error", 1)
		c.Note("NewTransform failed: %s%s", tes, tps)
		return nil
	}
	m := &protoModel{state: "init"}
	var hist []string
	sig := uint64(0)
	fail := func(msg string) []Violation {
		c.Note("history: %v", hist)
		return []Violation{viol("C01.protocol", w.Format+": "+msg,
			"world: "+w.Name, fmt.Sprintf("input storage faults: %v", dmgDesc), "delivery plan: "+plan.String(),
			fmt.Sprintf("call history (%d calls): %v", len(hist), hist), msg)}
	}
	raw := func(tag string) (string, schemahandler.RawRecord) {
		rr, err, p := run.RawOnce(tr)
		hist = append(hist, "RawRecord")
		c.Events++
		sig = sig*31 + 2
		if m.state != "ok" {
			c.Nontrivial = true
			c.Count("history.rawrecord-in-"+m.state, 1)
		}
		return m.afterRaw(rr, err, p), rr
	}
	for i, k := 0, c.T.Weighted("c01.raw0", 2, 2, 1); i < k; i++ {
		if msg, _ := raw("init"); msg != "" {
			return fail(msg)
		}
	}
	records := 0
	var kept []run.Entry
	afterTerminal := -1
	extra := 0
	for step := 0; step < 460; step++ {
		doRead := true
		if afterTerminal >= 0 {
			if afterTerminal >= extra {
				break
			}
			afterTerminal++
			doRead = c.T.Weighted("c01.after", 2, 1) == 0
		}
		if doRead {
			e := run.ReadOnce(tr)
			hist = append(hist, "Read->"+e.Class)
			c.Events++
			sig = sig*31 + 1
			wasTerminal := m.state == "terminal"
			if msg := m.afterRead(e); msg != "" {
				return fail(msg)
			}
			if e.Class == run.ClsPanic {
				break
			}
			if e.Class == run.ClsRecord && len(kept) < 64 {
				kept = append(kept, e)
			}
			c.Count("result."+e.Class, 1)
			if wasTerminal {
				c.Nontrivial = true
				c.Count("history.read-after-terminal", 1)
			}
			if m.state == "terminal" && afterTerminal < 0 {
				afterTerminal = 0
				extra = 3 + c.T.Intn("c01.extra", 18)
				c.Count("terminal."+e.Class, 1)
			}
			if e.Class == run.ClsRecord {
				// 1..3 RawRecord calls that must all describe this record, and agree with the canonical history
				k := 1 + c.T.Weighted("c01.rawn", 3, 2, 1)
				var first string
				for j := 0; j < k; j++ {
					msg, rr := raw("ok")
					if msg != "" {
						return fail(msg)
					}
					desc := ""
					func() {
						defer func() {
							if r := recover(); r != nil {
								desc = fmt.Sprintf("PANIC %v", r)
							}
						}()
						desc = rr.Checksum()
						if n, ok := rr.Raw().(*idr.Node); ok && n != nil {
							desc += " " + idr.JSONify2(n)
						}
					}()
					if j == 0 {
						first = desc
					} else if desc != first {
						return fail(fmt.Sprintf("two RawRecord calls after the same Read describe different records: %s vs %s", clipS(first, 200), clipS(desc, 200)))
					}
				}
				if records < len(canon.Entries) {
					ce := canon.Entries[records]
					if ce.Class == run.ClsRecord && ce.Checksum+" "+ce.RawJSON != first {
						return fail(fmt.Sprintf("raw record of Read #%d differs from the canonical (Read;RawRecord)* history: %s vs %s", records+1, clipS(first, 200), clipS(ce.Checksum+" "+ce.RawJSON, 200)))
					}
					if ce.Class == run.ClsRecord && ce.Out != e.Out {
						return fail(fmt.Sprintf("output of Read #%d depends on interleaved RawRecord calls", records+1))
					}
				}
			} else if m.state == "failed" && c.T.Chance("c01.rawfail", 1, 2) {
				if msg, _ := raw("failed"); msg != "" {
					return fail(msg)
				}
			}
			records++
		} else {
			if msg, _ := raw("terminal"); msg != "" {
				return fail(msg)
			}
		}
	}
	for i := range kept {
		if !kept[i].Intact() {
			return fail(fmt.Sprintf("the JSON bytes returned by an earlier successful Read were modified by a later call (returned %s)", clipS(kept[i].Out, 120)))
		}
	}
	c.Events += int64(rd.Stats.Reads)
	c.SigMix(plan.Sig())
	c.SigMix(sig)
	c.Ev("c01", plan.Sig(), hist)
	if rd.Stats.FaultFired {
		c.Count("fault."+simio.FaultName(plan.Fault.Kind), 1)
	}
	c.Sample = map[string]interface{}{"world": w.Name, "plan": plan.Mode, "fault": plan.Fault.String(), "storage_faults": dmgDesc, "history": histSummary(hist)}
	return nil
}

func histSummary(h []string) []string {
	if len(h) <= 24 {
		return h
	}
	out := append([]string{}, h[:10]...)
	out = append(out, fmt.Sprintf("... %d calls ...", len(h)-20))
	return append(out, h[len(h)-10:]...)
}

// ---- caller-supplied handler: a scripted mock ----

type mockStep struct {
	bytes       []byte
	err         error
	continuable bool
	withBytes   bool // ill-behaved: bytes together with an error
}

type mockRaw struct{ id int }

func (r *mockRaw) Raw() interface{} { return r.id }
func (r *mockRaw) Checksum() string { return fmt.Sprintf("mock-%d", r.id) }

type mockIngester struct {
	steps []mockStep
	pos   int
	calls int
}

type mockFatal struct{ s string }

func (e *mockFatal) Error() string { return e.s }

func (g *mockIngester) Read() (schemahandler.RawRecord, []byte, error) {
	g.calls++
	if g.pos >= len(g.steps) {
		return nil, nil, io.EOF
	}
	s := g.steps[g.pos]
	g.pos++
	if s.err != nil {
		if s.withBytes {
			return &mockRaw{g.pos}, []byte(`{"stale":true}`), s.err
		}
		return nil, nil, s.err
	}
	return &mockRaw{g.pos}, s.bytes, nil
}

func (g *mockIngester) IsContinuableError(err error) bool {
	if errs.IsErrTransformFailed(err) {
		return true
	}
	var mc *mockCont
	return errors.As(err, &mc)
}

type mockCont struct{ s string }

func (e *mockCont) Error() string { return e.s }

func (g *mockIngester) FmtErr(format string, args ...interface{}) error {
	return fmt.Errorf(format, args...)
}

type mockHandler struct{ ing *mockIngester }

func (h *mockHandler) NewIngester(ctx *transformctx.Ctx, input io.Reader) (schemahandler.Ingester, error) {
	return h.ing, nil
}

const mockSchema = `{"parser_settings": {"version": "verif.mock.1", "file_format_type": "mock"}}`

func runC01Mock(c *Ctx) []Violation {
	c.T.Begin("mock")
	ing := &mockIngester{}
	var script []string
	c.T.Repeat("mock.step", 0, 30, 5, 6, func(i int) {
		switch c.T.Weighted("mock.kind", 5, 3, 1, 1, 1) {
		case 0:
			ing.steps = append(ing.steps, mockStep{bytes: []byte(fmt.Sprintf(`{"n":%d}`, i))})
			script = append(script, "record")
		case 1:
			ing.steps = append(ing.steps, mockStep{err: &mockCont{fmt.Sprintf("continuable #%d", i)}, continuable: true, withBytes: c.T.Bool("mock.withBytes")})
			script = append(script, "continuable")
		case 2:
			ing.steps = append(ing.steps, mockStep{err: errs.ErrTransformFailed(fmt.Sprintf("already wrapped #%d", i)), continuable: true})
			script = append(script, "ErrTransformFailed")
		case 3:
			ing.steps = append(ing.steps, mockStep{err: &mockFatal{fmt.Sprintf("fatal #%d", i)}, withBytes: c.T.Bool("mock.withBytes")})
			script = append(script, "fatal")
		case 4:
			ing.steps = append(ing.steps, mockStep{err: io.EOF})
			script = append(script, "EOF")
		}
	})
	c.T.End()
	c.Note("mock ingester script: %v (then EOF)", script)
	ext := omniparser.Extension{
		CreateSchemaHandler: func(ctx *schemahandler.CreateCtx) (schemahandler.SchemaHandler, error) {
			if ctx.Header.ParserSettings.Version != "verif.mock.1" {
				return nil, errs.ErrSchemaNotSupported
			}
			return &mockHandler{ing: ing}, nil
		},
	}
	run.DefaultEnv().Apply()
	schema, es, ps := run.NewSchema("mock-schema", []byte(mockSchema), ext)
	if schema == nil {
		panic("harness: mock schema rejected: " + es + ps)
	}
	tr, tes, tps := run.NewTransform(schema, "mock-input", &simio.Reader{}, nil)
	if tr == nil {
		panic("harness: mock NewTransform failed: " + tes + tps)
	}
	m := &protoModel{state: "init"}
	var hist []string
	fail := func(msg string) []Violation {
		return []Violation{viol("C01.protocol", "caller-supplied handler: "+msg,
			fmt.Sprintf("mock ingester script: %v (then EOF)", script), fmt.Sprintf("call history: %v", hist), msg)}
	}
	callsAtTerminal := -1
	sig := uint64(7)
	n := 4 + len(ing.steps) + c.T.Intn("mock.calls", 30)
	for i := 0; i < n; i++ {
		if c.T.Weighted("mock.call", 3, 2) == 0 {
			e := run.ReadOnce(tr)
			hist = append(hist, "Read->"+e.Class)
			sig = sig*31 + 1
			was := m.state
			if msg := m.afterRead(e); msg != "" {
				return fail(msg)
			}
			if e.Class == run.ClsContinuable && !errs.IsErrTransformFailed(e.ErrVal) {
				return fail("continuable result is not an ErrTransformFailed")
			}
			if was == "terminal" {
				c.Nontrivial = true
				c.Count("history.read-after-terminal", 1)
				if ing.calls != callsAtTerminal {
					return fail(fmt.Sprintf("Read after a terminal result called the ingester again (%d calls at the terminal result, %d now)", callsAtTerminal, ing.calls))
				}
			} else if m.state == "terminal" {
				callsAtTerminal = ing.calls
				c.Count("terminal."+e.Class, 1)
			}
			c.Count("result."+e.Class, 1)
		} else {
			rr, err, p := run.RawOnce(tr)
			hist = append(hist, "RawRecord")
			sig = sig*31 + 2
			if m.state != "ok" {
				c.Nontrivial = true
				c.Count("history.rawrecord-in-"+m.state, 1)
			}
			if msg := m.afterRaw(rr, err, p); msg != "" {
				return fail(msg)
			}
			if m.state == "ok" {
				if mr, ok := rr.(*mockRaw); !ok || mr.id != ing.pos {
					return fail(fmt.Sprintf("RawRecord does not describe the record of the most recent Read (got %v, ingester position %d)", rr, ing.pos))
				}
			}
		}
		c.Events++
	}
	c.SigMix(sig)
	c.Ev("c01mock", script, hist)
	c.Count("world.mock-handler", 1)
	c.Sample = map[string]interface{}{"world": "mock handler", "script": script, "history": histSummary(hist)}
	return nil
}

var _ = world.RepoDir
