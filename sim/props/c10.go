package props

import (
	"fmt"

	"github.com/jf-tech/omniparser/idr"

	"verif/sim/run"
	"verif/sim/simio"
	"verif/sim/world"
)

func init() {
	register(&Info{
		ID: "C10", Fn: runC10,
		Rule: "one case = (generated world whose schema addresses only the record's own data, record lists A and B, split/permutation/poison choice, pool configuration): compares T(A++B) with T(A);T(B), T(pi(A)) with pi(T(A)), and T(A[k:=poison]) with T(A), where poison is a record-level data fault {non-numeric text under an int cast, duplicated element under a single-match xpath, value that makes a javascript function throw}. All compared runs share one configuration (node pool on/off/emptied at a chosen record, caches flushed at a chosen record, ID base). Non-trivial = at least 2 visible records and a non-identity split/permutation/poison; distinct = distinct (world hash, law, choice).",
		Real: commonReal, Simulated: commonSim,
		Assume: []string{"schemas address only the target record's own data (generator option), as the property requires", "failing records are compared by class only: their text legitimately carries a position", "whole-input delivery in every compared run, so that only carried-over state can differ (delivery independence is C09's)"},
	})
}

// visibleRecs returns the records that pass the target filter.
func visibleRecs(w *world.World, recs []world.LRec) []world.LRec {
	var out []world.LRec
	for _, r := range recs {
		if w.Shape.SkipValue == "" || r.Vals[0] != w.Shape.SkipValue {
			out = append(out, r)
		}
	}
	return out
}

// resKey is what must be preserved per record: class, and for records output + checksum + raw.
func resKey(e run.Entry) string {
	if e.Class == run.ClsRecord {
		return e.Class + "|" + e.Out + "|" + e.Checksum + "|" + e.RawJSON
	}
	return e.Class
}

type c10cfg struct {
	env     run.Env
	emptyAt int // empty the pools after this many delivered records (-1 never)
	flushAt int // flush the LRU caches after this many delivered records (-1 never)
}

func (g c10cfg) String() string {
	return fmt.Sprintf("%s emptyPoolsAfterRecord=%d flushCachesAfterRecord=%d", g.env, g.emptyAt, g.flushAt)
}

// c10Drive transforms the given logical records and returns the per-result keys without the final EOF.
func c10Drive(c *Ctx, w *world.World, recs []world.LRec, cfg c10cfg) (keys []string, tr *run.Transcript, input []byte) {
	texts := make([]string, len(recs))
	for i, r := range recs {
		texts[i] = w.Render(r)
	}
	ww := w.WithRecs(texts)
	cfg.env.Apply()
	rd := simio.NewReader(ww.Input, simio.Whole(len(ww.Input)))
	delivered := 0
	tr = run.Drive(ww, rd, run.Opts{MaxReads: len(recs) + 8, OnRecord: func(int, *idr.Node) {
		delivered++
		if delivered == cfg.emptyAt {
			run.EmptyPools()
			c.Count("fault.pools-emptied", 1)
		}
		if delivered == cfg.flushAt {
			cfg.env.FlushCaches()
			c.Count("fault.caches-flushed", 1)
		}
	}})
	c.Events += int64(rd.Stats.Reads + len(tr.Entries))
	for _, e := range tr.Entries {
		keys = append(keys, resKey(e))
	}
	return keys, tr, ww.Input
}

func runC10(c *Ctx) []Violation {
	w := genWorld(c, world.GenOpts{OwnDataOnly: true, MinRecs: 2, MaxRecs: 14, Encodings: false})
	c.Count("world.format."+w.Format, 1)
	c.SigMix(w.Hash())
	cfg := c10cfg{env: baseEnv(c), emptyAt: -1, flushAt: -1}
	c.T.Begin("c10.cfg")
	switch c.T.Weighted("c10.pool", 4, 2, 3) {
	case 1:
		cfg.env.NodePool = false
		c.Count("config.node-pool-off", 1)
	case 2:
		cfg.emptyAt = 1 + c.T.Intn("c10.emptyAt", 6)
	}
	if c.T.Chance("c10.flush", 1, 4) {
		cfg.flushAt = 1 + c.T.Intn("c10.flushAt", 6)
	}
	c.T.End()
	A := w.LRecs
	c.Note("world %s; config %s", w.Name, cfg)
	kA, trA, inA := c10Drive(c, w, A, cfg)
	if trA.SchemaErr != "" || trA.TransformErr != "" {
		panic("harness: generated world rejected: " + trA.SchemaErr + trA.TransformErr)
	}
	visA := visibleRecs(w, A)
	for i, e := range trA.Entries {
		if e.Class == run.ClsMalformed {
			return []Violation{viol("C10.aliasing", w.Format+": "+e.Shape, "world: "+w.Name, fmt.Sprintf("result #%d: %s", i+1, e.Shape), fmt.Sprintf("input: %q", string(inA)))}
		}
	}
	c.Ev("A", kA)
	det := func(extra ...string) []string {
		d := []string{"world: " + w.Name, "configuration: " + cfg.String(), "schema: " + string(w.Schema), fmt.Sprintf("input A: %q", string(inA))}
		return append(d, extra...)
	}
	// sanity of the reference itself: one result per visible record plus EOF
	if len(kA) != len(visA)+1 || kA[len(kA)-1] != run.ClsEOF {
		return nil // other properties' subject (C05/C03); nothing to compare against
	}
	law := c.T.Weighted("c10.law", 3, 3, 4)
	c.SigMix(uint64(law))
	switch law {
	case 0: // concatenation
		c.T.Begin("c10.B")
		var B []world.LRec
		c.T.Repeat("c10.B.rec", 1, 10, 3, 4, func(int) { B = append(B, world.DrawRec(c.T, w.Shape)) })
		c.T.End()
		kB, _, inB := c10Drive(c, w, B, cfg)
		AB := append(append([]world.LRec{}, A...), B...)
		kAB, _, inAB := c10Drive(c, w, AB, cfg)
		c.Ev("B", kB, "AB", kAB)
		c.Count("law.concatenation", 1)
		if len(visA) >= 1 && len(B) >= 1 {
			c.Nontrivial = true
		}
		want := append(append([]string{}, kA[:len(kA)-1]...), kB...)
		if d := run.FirstDiff(want, kAB); d >= 0 {
			return []Violation{viol("C10.concat", fmt.Sprintf("%s: result #%d of T(A++B) differs from T(A) followed by T(B)", w.Format, d+1),
				det(fmt.Sprintf("input B: %q", string(inB)), fmt.Sprintf("input A++B: %q", string(inAB)),
					"expected (from the separate runs): "+run.ShowKey(want, d), "observed in T(A++B):              "+run.ShowKey(kAB, d))...)}
		}
	case 1: // permutation
		perm := make([]int, len(A))
		for i := range perm {
			perm[i] = i
		}
		c.T.Begin("c10.perm")
		for i := len(perm) - 1; i > 0; i-- {
			j := c.T.Intn("c10.perm.j", i+1)
			perm[i], perm[j] = perm[j], perm[i]
		}
		c.T.End()
		P := make([]world.LRec, len(A))
		ident := true
		for i, j := range perm {
			P[i] = A[j]
			if i != j {
				ident = false
			}
		}
		kP, _, inP := c10Drive(c, w, P, cfg)
		c.Ev("perm", perm, kP)
		c.Count("law.permutation", 1)
		if !ident && len(visA) >= 2 {
			c.Nontrivial = true
		}
		// expected: results of A's visible records in permuted order
		resOf := map[int]string{}
		vi := 0
		for i, r := range A {
			if w.Shape.SkipValue == "" || r.Vals[0] != w.Shape.SkipValue {
				resOf[i] = kA[vi]
				vi++
			}
		}
		var want []string
		for _, j := range perm {
			if k, ok := resOf[j]; ok {
				want = append(want, k)
			}
		}
		want = append(want, run.ClsEOF)
		if d := run.FirstDiff(want, kP); d >= 0 {
			return []Violation{viol("C10.permutation", fmt.Sprintf("%s: result #%d of the permuted input differs from the permuted results", w.Format, d+1),
				det(fmt.Sprintf("permutation: %v", perm), fmt.Sprintf("permuted input: %q", string(inP)),
					"expected: "+run.ShowKey(want, d), "observed: "+run.ShowKey(kP, d))...)}
		}
	default: // poison one record
		c.T.Begin("c10.poison")
		// choose a visible record
		var visIdx []int
		for i, r := range A {
			if w.Shape.SkipValue == "" || r.Vals[0] != w.Shape.SkipValue {
				visIdx = append(visIdx, i)
			}
		}
		if len(visIdx) == 0 {
			c.T.End()
			return nil
		}
		k := visIdx[c.T.Intn("c10.poison.k", len(visIdx))]
		kinds := []string{"type-cast"}
		if w.CanDup {
			kinds = append(kinds, "multiple-xpath-matches")
		}
		if w.JSPoisonIdx > 0 && w.JSPoisonIdx-1 != 0 {
			kinds = append(kinds, "custom-func-error")
		}
		kind := kinds[c.T.Intn("c10.poison.kind", len(kinds))]
		c.T.End()
		P := append([]world.LRec{}, A...)
		pr := world.LRec{Vals: append([]string{}, A[k].Vals...), Items: A[k].Items}
		switch kind {
		case "type-cast":
			pr.Vals[w.Shape.IntIdx] = "x1y"
		case "multiple-xpath-matches":
			pr.Dup = w.Shape.IntIdx + 1
		case "custom-func-error":
			pr.Vals[w.JSPoisonIdx-1] = world.BoomValue
		}
		P[k] = pr
		kP, trP, inP := c10Drive(c, w, P, cfg)
		c.Ev("poison", k, kind, kP)
		c.Count("law.poison", 1)
		c.Count("fault.poison."+kind, 1)
		c.Nontrivial = true
		c.SigMix(uint64(k)<<8 | uint64(len(kind)))
		pos := 0
		for _, i := range visIdx {
			if i == k {
				break
			}
			pos++
		}
		want := append([]string{}, kA...)
		want[pos] = run.ClsContinuable
		if d := run.FirstDiff(want, kP); d >= 0 {
			msg := fmt.Sprintf("%s: replacing record #%d by a poisoned one (%s) changes result #%d", w.Format, pos+1, kind, d+1)
			if d == pos {
				msg = fmt.Sprintf("%s: the poisoned record #%d (%s) did not become a per-record failure: %s", w.Format, pos+1, kind, run.ShowKey(kP, d))
			}
			extra := []string{fmt.Sprintf("poisoned input: %q", string(inP)), "expected: " + run.ShowKey(want, d), "observed: " + run.ShowKey(kP, d)}
			if d < len(trP.Entries) && trP.Entries[d].Err != "" {
				extra = append(extra, "error text: "+trP.Entries[d].Err)
			}
			return []Violation{viol("C10.poison", msg, det(extra...)...)}
		}
	}
	c.Sample = map[string]interface{}{"world": w.Name, "config": cfg.String(), "law": []string{"concatenation", "permutation", "poison"}[law], "records": len(A)}
	return nil
}
