package props

import (
	"fmt"

	"verif/sim/run"
	"verif/sim/simio"
	"verif/sim/world"
)

func init() {
	register(&Info{ID: "GENTEST", Fn: runGenTest, Rule: "generator self-test (not a property check)"})
}

// runGenTest checks the generators themselves: schemas are accepted and every non-filtered
// logical record yields exactly one result.
func runGenTest(c *Ctx) []Violation {
	w := genWorld(c, world.GenOpts{Encodings: true})
	env := baseEnv(c)
	env.Apply()
	rd := simio.NewReader(w.Input, simio.Whole(len(w.Input)))
	tr := run.Drive(w, rd, run.Opts{Audit: true})
	c.Count("format."+w.Format, 1)
	c.Nontrivial = true
	c.SigMix(w.Hash())
	fail := func(msg string) []Violation {
		d := []string{"world: " + w.Name, msg, "schema: " + string(w.Schema), fmt.Sprintf("input: %q", string(w.Input))}
		d = append(d, tr.Describe(20)...)
		return []Violation{viol("GENTEST."+w.Format, w.Format+": "+msg, d...)}
	}
	if tr.SchemaErr != "" || tr.SchemaPanic != "" {
		return fail("schema rejected: " + tr.SchemaErr + tr.SchemaPanic)
	}
	if tr.TransformErr != "" {
		return fail("NewTransform failed: " + tr.TransformErr)
	}
	if w.Tag("json.stream-of-top-level-values") != "" {
		// by design the library reads the first top-level value and refuses what follows
		c.Count("json.stream-of-top-level-values", 1)
		return nil
	}
	want := 0
	for _, r := range w.LRecs {
		if w.Shape.SkipValue == "" || r.Vals[0] != w.Shape.SkipValue {
			want++
		}
	}
	got := 0
	for _, e := range tr.Entries {
		switch e.Class {
		case run.ClsRecord:
			got++
			c.Count("records", 1)
		case run.ClsContinuable:
			got++
			c.Count("continuable", 1)
			c.Note("continuable: %s", e.Err)
		case run.ClsEOF:
		default:
			return fail("unexpected result " + e.Class + ": " + e.Err + e.Shape)
		}
		if e.Audit != "" {
			return fail("audit: " + e.Audit)
		}
	}
	if got != want {
		return fail(fmt.Sprintf("expected %d results for %d logical records, got %d", want, len(w.LRecs), got))
	}
	return nil
}
