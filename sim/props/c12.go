package props

import (
	"fmt"
	"os"

	"github.com/jf-tech/omniparser/idr"

	"verif/sim/run"
	"verif/sim/sched"
	"verif/sim/simio"
	"verif/sim/tape"
)

func init() {
	register(&Info{
		ID: "C12", Fn: runC12, NeedsRace: true,
		Rule: "six kinds of case. (a/c) operation histories: 1-8 owners, each with a private forest, issue tape-drawn CreateNode/CreateXMLNode/CreateJSONNode, AddChild, RemoveAndReleaseTree (first/middle/last/only child, roots) with pooling on and the pool emptied at chosen steps; after EVERY operation the owner's real trees are compared with an ordered-tree model (links, order, data, IDs, blankness of fresh nodes, no double hand-out); with >= 2 owners the seeded scheduler interleaves them at operation granularity, half of the workers in the race build, and the union of all acquired IDs must be duplicate-free. (b) trees handed out by the seven readers: every record delivered for corpus/generated worlds under drawn delivery plans, truncation and storage faults is audited. (d) long recycle histories: 70 000 - 1.2 M create/release cycles of small trees around 1-6 long-lived nodes, every ID recorded, fresh nodes blank. (e) the format reader of a real Transform, and (f) the two idr stream readers, driven directly: Read/Release, 1-3 Reads after the terminal result, transient input failures followed by another try, a second owner taking and returning pooled nodes between any two calls; after every call no node is in the pool twice, every pooled node is blank, the second owner's nodes are untouched, every tree handed out is sound. Non-trivial = >= 10 operations incl. a removal, or >= 1 audited record, or >= 1 Read after the terminal result; distinct = distinct (operation lists / world+plan, interleaving hash).",
		Real: []string{"idr (node.go, jsonnode.go, xmlnode.go, readers) and, for (b), all of /repo as in the other checks"}, Simulated: append(append([]string{}, commonSim...), "which owner runs next (seeded scheduler, raw-pipe hand-off)"),
		Assume: []string{"in race builds sync.Pool drops a quarter of the Puts at random (stdlib); this changes which node object is recycled, never an oracle"},
	})
}

type mnode struct {
	real     *idr.Node
	id       int64
	typ      idr.NodeType
	data     string
	fs       interface{}
	parent   *mnode
	children []*mnode
}

type c12op struct {
	kind    int // 0 create, 1 addchild, 2 remove, 3 empty pool
	a, b, v int
}

type owner struct {
	id       int
	ops      []c12op
	roots    []*mnode
	live     map[*idr.Node]*mnode
	all      []*mnode // live nodes in creation order
	ids      []int64  // every ID acquired
	counter  int
	fail     string
	failStep int
	steps    int
	removals int
	kinds    map[string]int
}

func (o *owner) liveList() []*mnode { return o.all }

func (o *owner) dropLive(m *mnode) {
	var walk func(x *mnode)
	walk = func(x *mnode) {
		delete(o.live, x.real)
		for _, c := range x.children {
			walk(c)
		}
	}
	walk(m)
	keep := o.all[:0]
	for _, x := range o.all {
		if _, ok := o.live[x.real]; ok {
			keep = append(keep, x)
		}
	}
	o.all = keep
}

func inSubtree(root, x *mnode) bool {
	for p := x; p != nil; p = p.parent {
		if p == root {
			return true
		}
	}
	return false
}

// check compares every real tree of the owner with the model.
func (o *owner) check() string {
	seen := 0
	var walk func(m *mnode) string
	walk = func(m *mnode) string {
		seen++
		n := m.real
		if n.ID != m.id {
			return fmt.Sprintf("live node %q: ID changed from %d to %d (recycled while still live?)", m.data, m.id, n.ID)
		}
		if n.Data != m.data || n.Type != m.typ {
			return fmt.Sprintf("live node %q (id %d): content changed to %q/%s (handed out to a second owner or reset while live?)", m.data, m.id, n.Data, n.Type)
		}
		if (m.parent == nil) != (n.Parent == nil) || (m.parent != nil && n.Parent != m.parent.real) {
			return fmt.Sprintf("node %q: Parent link does not match the model", m.data)
		}
		if m.parent == nil && (n.PrevSibling != nil || n.NextSibling != nil) {
			return fmt.Sprintf("root %q keeps sibling links", m.data)
		}
		var prev *idr.Node
		c := n.FirstChild
		for i, mc := range m.children {
			if c == nil {
				return fmt.Sprintf("node %q: child list ends after %d children, model has %d", m.data, i, len(m.children))
			}
			if c != mc.real {
				return fmt.Sprintf("node %q: child #%d is %q, model expects %q", m.data, i, c.Data, mc.data)
			}
			if c.PrevSibling != prev {
				return fmt.Sprintf("node %q: child #%d (%q) has a wrong PrevSibling", m.data, i, c.Data)
			}
			if msg := walk(mc); msg != "" {
				return msg
			}
			prev = c
			c = c.NextSibling
		}
		if c != nil {
			return fmt.Sprintf("node %q: real tree has extra child %q (id %d) after the %d the model lists", m.data, c.Data, c.ID, len(m.children))
		}
		if n.LastChild != prev {
			return fmt.Sprintf("node %q: LastChild does not point at the last child", m.data)
		}
		if len(m.children) == 0 && n.FirstChild != nil {
			return fmt.Sprintf("node %q: FirstChild set but the model has no children", m.data)
		}
		return ""
	}
	for _, r := range o.roots {
		if msg := walk(r); msg != "" {
			return msg
		}
	}
	if seen != len(o.live) {
		return fmt.Sprintf("model bookkeeping: walked %d nodes, live set has %d", seen, len(o.live))
	}
	return ""
}

func (o *owner) step(op c12op) string {
	switch op.kind {
	case 0:
		o.counter++
		data := fmt.Sprintf("o%d-n%d", o.id, o.counter)
		var n *idr.Node
		var fs interface{}
		typ := idr.NodeType(op.v % 4)
		switch op.a % 3 {
		case 0:
			n = idr.CreateNode(typ, data)
			o.kinds["CreateNode"]++
		case 1:
			x := idr.XMLSpecific{NamespacePrefix: "p", NamespaceURI: "uri://" + data}
			n = idr.CreateXMLNode(typ, data, x)
			fs = x
			o.kinds["CreateXMLNode"]++
		default:
			j := idr.JSONType(1 << uint(op.b%8))
			n = idr.CreateJSONNode(typ, data, j)
			fs = j
			o.kinds["CreateJSONNode"]++
		}
		if n == nil {
			return "Create returned nil"
		}
		if n.Parent != nil || n.FirstChild != nil || n.LastChild != nil || n.PrevSibling != nil || n.NextSibling != nil {
			return fmt.Sprintf("freshly created node %q is not blank: it carries links", data)
		}
		if n.Data != data || n.Type != typ || n.FormatSpecific != fs {
			return fmt.Sprintf("freshly created node %q has wrong content (%q, %s, %v)", data, n.Data, n.Type, n.FormatSpecific)
		}
		if other, dup := o.live[n]; dup {
			return fmt.Sprintf("node handed out twice: %q is still live as %q (id %d)", data, other.data, other.id)
		}
		m := &mnode{real: n, id: n.ID, typ: typ, data: data, fs: fs}
		o.live[n] = m
		o.all = append(o.all, m)
		o.roots = append(o.roots, m)
		o.ids = append(o.ids, n.ID)
	case 1:
		if len(o.roots) < 2 {
			return ""
		}
		ci := op.a % len(o.roots)
		child := o.roots[ci]
		// parent: any live node outside child's subtree
		var cands []*mnode
		for _, x := range o.all {
			if !inSubtree(child, x) {
				cands = append(cands, x)
			}
		}
		if len(cands) == 0 {
			return ""
		}
		parent := cands[op.b%len(cands)]
		if op.v%3 != 0 {
			// prefer parents that already have children, so that child lists grow wide
			var wide []*mnode
			for _, x := range cands {
				if len(x.children) > 0 {
					wide = append(wide, x)
				}
			}
			if len(wide) > 0 {
				parent = wide[op.b%len(wide)]
			}
		}
		idr.AddChild(parent.real, child.real)
		parent.children = append(parent.children, child)
		child.parent = parent
		o.roots = append(o.roots[:ci], o.roots[ci+1:]...)
		o.kinds["AddChild"]++
	case 2:
		if len(o.all) == 0 {
			return ""
		}
		var m *mnode
		// bias: first / last / middle / only child, or a root
		switch op.v % 5 {
		case 0:
			m = o.all[op.a%len(o.all)]
		default:
			var withKids []*mnode
			for _, x := range o.all {
				if len(x.children) > 0 {
					withKids = append(withKids, x)
				}
			}
			if len(withKids) == 0 {
				m = o.all[op.a%len(o.all)]
			} else {
				p := withKids[op.a%len(withKids)]
				switch op.v % 5 {
				case 1:
					m = p.children[0]
				case 2:
					m = p.children[len(p.children)-1]
				case 3:
					m = p.children[len(p.children)/2]
				default:
					m = p.children[op.b%len(p.children)]
				}
			}
		}
		pos := "root"
		if m.parent != nil {
			kids := m.parent.children
			idx := 0
			for i, k := range kids {
				if k == m {
					idx = i
				}
			}
			switch {
			case len(kids) == 1:
				pos = "only-child"
			case idx == 0:
				pos = "first-child"
			case idx == len(kids)-1:
				pos = "last-child"
			default:
				pos = "middle-child"
			}
			m.parent.children = append(append([]*mnode{}, kids[:idx]...), kids[idx+1:]...)
		} else {
			for i, r := range o.roots {
				if r == m {
					o.roots = append(o.roots[:i], o.roots[i+1:]...)
					break
				}
			}
		}
		o.kinds["Remove."+pos]++
		o.removals++
		idr.RemoveAndReleaseTree(m.real)
		m.parent = nil
		o.dropLive(m)
	case 3:
		run.EmptyPools()
		o.kinds["pool-emptied"]++
	}
	return ""
}

func drawOps(t *tape.Tape, id int) []c12op {
	var ops []c12op
	t.Begin("owner")
	t.Repeat("op", 4, 120, 19, 20, func(int) {
		k := t.Weighted("op.kind", 5, 5, 2, 0)
		if t.Chance("op.emptypool", 1, 40) {
			k = 3
		}
		ops = append(ops, c12op{kind: k, a: t.Intn("op.a", 1<<16), b: t.Intn("op.b", 1<<16), v: t.Intn("op.v", 20)})
	})
	t.End()
	return ops
}

func (o *owner) runAll(yield func()) {
	for i, op := range o.ops {
		o.steps++
		if msg := o.step(op); msg != "" {
			o.fail, o.failStep = msg, i
			return
		}
		if msg := o.check(); msg != "" {
			o.fail, o.failStep = msg, i
			return
		}
		if yield != nil {
			yield()
		}
	}
}

func opName(op c12op) string {
	return [...]string{"Create", "AddChild", "RemoveAndReleaseTree", "empty-pool"}[op.kind]
}

func runC12(c *Ctx) []Violation {
	part := c.T.Weighted("c12.part", 10, 6, 3, 1, 4)
	if p := os.Getenv("VERIF_C12_PART"); p != "" {
		part = int(p[0] - '0') // developer knob: one family only
	}
	switch part {
	case 1:
		return runC12Readers(c)
	case 2:
		return runC12Direct(c)
	case 3:
		return runC12Churn(c)
	case 4:
		return runC12Streams(c)
	}
	env := baseEnv(c)
	nOwners := 1 + c.T.Weighted("c12.owners", 4, 3, 2, 1, 1, 1, 1, 1)
	owners := make([]*owner, nOwners)
	for i := range owners {
		owners[i] = &owner{id: i, ops: drawOps(c.T, i), live: map[*idr.Node]*mnode{}, kinds: map[string]int{}}
	}
	policy := c.T.Weighted("c12.policy", 3, 2, 1)
	env.Apply()
	c.Note("%d owners; env %s", nOwners, env)
	var s *sched.Sched
	if nOwners == 1 {
		owners[0].runAll(nil)
	} else {
		s = sched.New(c.T)
		s.Policy = policy
		s.Soft = sched.DrawSoft(c.T, nOwners)
		if sched.Instrumented && len(s.Soft) > 0 && s.Soft[0].SharedOnly {
			c.Count("soft-yields.shared-state-files-only", 1)
		}
		fns := make([]func(*sched.Task), nOwners)
		for i := range owners {
			o := owners[i]
			fns[i] = func(st *sched.Task) { o.runAll(st.Yield) }
		}
		res := s.Run(fns)
		if n := s.Met(); n > 0 {
			c.Count("sched.two-tasks-met-at-a-shared-state-statement", int64(n))
		}
		for i, r := range res {
			if r.Panic != "" && owners[i].fail == "" {
				owners[i].fail = "panic: " + r.Panic
			}
		}
		c.Events += int64(s.Steps)
		c.Count("task-switches", int64(s.Switches))
		c.SigMix(s.TraceSig())
		for _, r := range res {
			c.Count("soft-yields-taken", int64(r.SoftTaken))
		}
	}
	total, removals := 0, 0
	ids := map[int64]int{}
	dup := ""
	for _, o := range owners {
		total += o.steps
		removals += o.removals
		for k, v := range o.kinds {
			c.Count("op."+k, int64(v))
		}
		for _, id := range o.ids {
			if prev, ok := ids[id]; ok && dup == "" {
				dup = fmt.Sprintf("ID %d was handed out twice (owners %d and %d)", id, prev, o.id)
			}
			ids[id] = o.id
		}
		for _, op := range o.ops {
			c.SigMix(uint64(op.kind)<<40 | uint64(op.a)<<20 | uint64(op.b))
		}
	}
	c.Events += int64(total)
	c.Count("owners", int64(nOwners))
	c.Count("acquisitions", int64(len(ids)))
	if total >= 10 && removals > 0 {
		c.Nontrivial = true
	}
	if !c.Race {
		// pool behaviour is part of the deterministic execution (plain build only: race builds drop pooled items at random)
		c.Ev("node-id-counter", idr.VerifNodeIDCounter())
	}
	c.Ev("c12", total, removals, len(ids))
	c.Sample = map[string]interface{}{"kind": "operation history", "owners": nOwners, "operations": total, "removals": removals, "acquisitions": len(ids)}
	for _, o := range owners {
		if o.fail != "" {
			var hist []string
			from := o.failStep - 12
			if from < 0 {
				from = 0
			}
			for i := from; i <= o.failStep && i < len(o.ops); i++ {
				hist = append(hist, fmt.Sprintf("#%d %s", i, opName(o.ops[i])))
			}
			return []Violation{viol("C12.history", "node tree unsound after an operation history: "+o.fail,
				fmt.Sprintf("owner %d of %d, operation #%d (%s)", o.id, nOwners, o.failStep, opName(o.ops[o.failStep])),
				o.fail, fmt.Sprintf("last operations of this owner: %v", hist), "env: "+env.String())}
		}
	}
	if dup != "" {
		return []Violation{viol("C12.id-unique", "two acquisitions carry the same node ID: "+dup, dup, "env: "+env.String())}
	}
	return nil
}

// runC12Readers audits every tree handed out by the format readers.
func runC12Readers(c *Ctx) []Violation {
	w := pickWorld(c, worldOpts{CorpusWeight: 1, GenWeight: 3, Encodings: true})
	env := baseEnv(c)
	input := w.Input
	plan := simio.DrawPlan(c.T, input)
	var desc []string
	switch c.T.Weighted("c12.fault", 3, 2, 2) {
	case 1:
		input, desc, _ = simio.Damage(c.T, input, nil, nil, 2)
		plan = simio.DrawPlan(c.T, input)
	case 2:
		off, _ := simio.DrawFaultOffset(c.T, len(input), w.Recs)
		plan.Fault = simio.Fault{Kind: simio.FaultTruncate, Off: off}
	}
	ww := w.Clone()
	ww.Input = input
	env.Apply()
	rd := simio.NewReader(input, plan)
	// pool discipline: at no point is a node in the pool twice (it would be handed out twice). Looked
	// at before every Read and when the transform is over: the pool is drained, inspected and
	// refilled so that it hands the nodes out again in the same order.
	doubleRelease := ""
	inspectPool := func() {
		// (plain builds only: in race builds sync.Pool drops items at random, a double release may or may not stay visible)
		if !env.NodePool || doubleRelease != "" || c.Race {
			return
		}
		pooled := idr.VerifDrainNodePool()
		seen := make(map[*idr.Node]bool, len(pooled))
		for _, n := range pooled {
			if seen[n] {
				doubleRelease = fmt.Sprintf("%d nodes in the pool; node %p (last ID %d) is among them more than once", len(pooled), n, n.ID)
			}
			seen[n] = true
		}
		c.Count("pooled-nodes-checked", int64(len(pooled)))
		idr.VerifRefillNodePool(pooled)
	}
	if sched.Instrumented {
		// ... and, in the instrumented flavour, between the statements of the library: a node released
		// twice and taken out again twice a moment later never shows at the coarser points
		phase, n := c.T.Intn("c12.pool-probe.phase", 5), 0
		sched.StatementProbe = func() {
			if n++; n%5 == phase {
				inspectPool()
			}
		}
		defer func() { sched.StatementProbe = nil }()
	}
	tr := run.Drive(ww, rd, run.Opts{Audit: true, MaxReads: 600, Between: inspectPool})
	sched.StatementProbe = nil
	inspectPool()
	if doubleRelease != "" {
		return []Violation{viol("C12.pool-double-release", w.Format+": a node was released into the pool twice (it would be handed out twice)",
			"world: "+w.Name, fmt.Sprintf("storage faults: %v", desc), "delivery plan: "+plan.String(), doubleRelease)}
	}
	c.Events += int64(rd.Stats.Reads + len(tr.Entries))
	c.SigMix(plan.Sig())
	audited := 0
	for i, e := range tr.Entries {
		if e.Class == run.ClsRecord {
			audited++
		}
		if e.Audit != "" {
			return []Violation{viol("C12.reader-tree", w.Format+": tree handed out by the reader is structurally unsound: "+e.Audit,
				"world: "+w.Name, fmt.Sprintf("storage faults: %v", desc), "delivery plan: "+plan.String(), fmt.Sprintf("record #%d: %s", i+1, e.Audit))}
		}
	}
	c.Count("reader-trees-audited", int64(audited))
	c.Count("world.reader-part", 1)
	if audited > 0 {
		c.Nontrivial = true
	}
	c.Ev("c12b", audited, plan.Sig())
	c.Sample = map[string]interface{}{"kind": "reader trees", "world": w.Name, "audited_records": audited, "plan": plan.Mode}
	return nil
}
