package props

import (
	"fmt"
	"math"
	"reflect"
	"sort"
	"strings"

	v21cf "github.com/jf-tech/omniparser/extensions/omniv21/customfuncs"
	"github.com/jf-tech/omniparser/idr"
	"github.com/jf-tech/omniparser/transformctx"

	"verif/sim/run"
	"verif/sim/sched"
	"verif/sim/tape"
)

func init() {
	register(&Info{
		ID: "C20", Fn: runC20, NeedsRace: true,
		Rule:      "one case = histories of direct JavaScript / JavaScriptWithContext calls by 1-6 tasks (interleaved by the seeded scheduler at call granularity; half of the workers in the race build). Scripts come from a family with known meaning: echo an argument, combine arguments (a+b, [a,b], ({k:a})), probe which names of a fixed universe are defined, read _node, produce NaN/Infinity/null/undefined, throw, syntax error. Argument names (overlapping and disjoint sets from a universe of 6) and values (string, int, float, bool) are tape-drawn; context nodes are replaced between calls the way records are (family 'general') or mutated in place the way ancestors are (family 'ancestor', known finding). Every call is compared with a stateless reference model. With GOMAXPROCS=1 the VM pool is LIFO, so call k+1 gets call k's VM; the pool is emptied at chosen calls and caches run at default / capacity 1 / off. Non-trivial = >= 4 calls with at least two different argument-name sets; distinct = distinct (call lists, interleaving hash, configuration).",
		Real:      []string{"extensions/omniv21/customfuncs/javascript.go (program cache, VM pool, node-JSON cache, argument set-up and clean-up, result export), goja, idr (nodes, JSONify2), go-corelib caches"},
		Simulated: append(append([]string{}, commonSim...), "which task runs next (seeded scheduler, raw-pipe hand-off)"),
		Assume:    []string{"scripts never assign global variables (excluded by the property)", "the reference model is stateless: per-call comparison is necessary and sufficient, so no linearizability search is involved"},
	})
}

var jsUniverse = []string{"a0", "a1", "a2", "a3", "a4", "a5"}

// jsGlobalNames are names an argument may have that the global object of a runtime already knows:
// own properties (built-ins) and inherited ones.
var jsGlobalNames = []string{"Math", "toString", "valueOf", "hasOwnProperty", "constructor", "escape", "Number", "Math", "__proto__"}

func isJSGlobalName(n string) bool {
	for _, g := range jsGlobalNames {
		if g == n {
			return true
		}
	}
	return false
}

type jsCall struct {
	ctx     bool   // JavaScriptWithContext with a node
	kind    string // echo, concat, sum, arr, obj, probe, node, nan, inf, null, undef, throw, syntax, oddargs
	names   []string
	vals    []interface{}
	mutate  int // before the call: 0 nothing, 1 replace the node (like a new record), 2 mutate in place (ancestor family)
	emptyVM bool
}

func drawJSValue(t *tape.Tape) interface{} {
	switch t.Weighted("js.vtype", 4, 2, 2, 1) {
	case 0:
		return []string{"x", "", "héllo", " padded ", "42", "a'b\"c", "漢"}[t.Intn("js.str", 7)]
	case 1:
		return []int{0, 1, -7, 123456, 1 << 40}[t.Intn("js.int", 5)]
	case 2:
		// (2^63 and its neighbours: whole numbers at the edge of what an int64 can hold)
		return []float64{1.5, -0.25, 2.0, 1e21, 3.0000001, 9223372036854775808.0, -9223372036854775808.0, 1152921504606846976.0}[t.Intn("js.float", 8)]
	}
	return t.Bool("js.bool")
}

func drawCalls(t *tape.Tape, family string) []jsCall {
	var calls []jsCall
	t.Begin("calls")
	t.Repeat("call", 2, 40, 11, 12, func(int) {
		c := jsCall{}
		c.ctx = t.Weighted("js.ctx", 3, 2) == 1
		kinds := []string{"echo", "concat", "sum", "arr", "obj", "probe", "probe", "probe", "node", "nan", "inf", "null", "undef", "throw", "syntax", "oddargs",
			"throwstr", "posinf", "nested", "objnull", "arrnull", "booleq", "echo", "mathfloor", "neginf2", "getter", "globals", "globals", "probethrow", "probethrow", "probethrow", "badname", "badname", "nodeindirect", "nodeindirect", "latejob", "latejob", "latejob"}
		c.kind = kinds[t.Intn("js.kind", len(kinds))]
		if c.kind == "node" {
			c.ctx = true
		}
		// argument names: a random subset of the universe (at least what the script needs)
		n := t.Intn("js.nargs", 4)
		if (c.kind == "echo" || c.kind == "obj" || c.kind == "objnull" || c.kind == "arrnull" || c.kind == "booleq" || c.kind == "badname") && n < 1 {
			n = 1
		}
		if (c.kind == "concat" || c.kind == "sum" || c.kind == "arr" || c.kind == "nested") && n < 2 {
			n = 2
		}
		perm := append([]string{}, jsUniverse...)
		if t.Chance("js.builtin-name", 1, 12) {
			// an argument named like a JavaScript built-in, or like something the global object inherits
			// (legal: it shadows it for this call)
			perm[0] = jsGlobalNames[t.Intn("js.builtin-name.which", len(jsGlobalNames))]
			if n < 1 {
				n = 1
			}
		}
		for i := 0; i < n; i++ {
			j := i + t.Intn("js.name", len(perm)-i)
			perm[i], perm[j] = perm[j], perm[i]
		}
		c.names = perm[:n]
		if c.kind == "mathfloor" || c.kind == "neginf2" || c.kind == "globals" {
			// these scripts use built-ins themselves: no argument of THIS call may shadow one
			var keep []string
			for _, nm := range c.names {
				if !isJSGlobalName(nm) {
					keep = append(keep, nm)
				}
			}
			c.names = keep
		}
		for range c.names {
			c.vals = append(c.vals, drawJSValue(t))
		}
		if c.kind == "probethrow" && t.Chance("js.probethrow.throws", 1, 2) {
			// the same script as the probing calls of this kind, but this call makes it throw
			found := false
			for i, nm := range c.names {
				if nm == "a0" {
					c.vals[i], found = "THROW", true
				}
			}
			if !found {
				c.names, c.vals = append(c.names, "a0"), append(c.vals, "THROW")
			}
			// ... or makes it end in a result that is turned down (another way for a call to fail, with
			// its own way out of the runtime)
			if how := t.Intn("js.probethrow.how", 5); how > 0 {
				for i, nm := range c.names {
					if nm == "a0" {
						c.vals[i] = []string{"", "NAN", "INF", "NULL", "UNDEF"}[how]
					}
				}
			}
		}
		if c.kind == "latejob" {
			// one script text for all calls of this kind (runtimes are pooled per script): its one
			// argument is an array, as another declaration's result would be
			c.names, c.vals = []string{"a0"}, []interface{}{[]interface{}{"v" + fmt.Sprint(t.Intn("js.latejob.v", 1000))}}
		}
		if c.kind == "concat" {
			c.vals[0], c.vals[1] = "s"+fmt.Sprint(t.Intn("js.s", 100)), "t"
		}
		if c.kind == "sum" {
			c.vals[0], c.vals[1] = t.Intn("js.i", 1000), t.Intn("js.j", 1000)
		}
		if c.ctx {
			switch family {
			case "ancestor":
				c.mutate = t.Weighted("js.mutate", 1, 1, 2)
			default:
				c.mutate = t.Weighted("js.mutate", 1, 2)
			}
		}
		c.emptyVM = t.Chance("js.emptyvm", 1, 15)
		calls = append(calls, c)
	})
	t.End()
	return calls
}

func (c jsCall) script() string {
	switch c.kind {
	case "echo":
		return c.names[0]
	case "concat", "sum":
		return c.names[0] + " + " + c.names[1]
	case "arr":
		return "[" + c.names[0] + ", " + c.names[1] + "]"
	case "obj":
		return "({k: " + c.names[0] + "})"
	case "probe", "probethrow":
		var parts []string
		for _, n := range append(append([]string{}, jsUniverse...), "_node") {
			parts = append(parts, "(typeof "+n+" !== 'undefined' ? '"+n+",' : '')")
		}
		if c.kind == "probethrow" {
			// one script text for calls that fail and for calls that look around
			return "if (typeof a0 !== 'undefined' && a0 === 'THROW') { throw new Error('asked to') } " +
				"(typeof a0 !== 'undefined' && a0 === 'NAN') ? 0/0 : (typeof a0 !== 'undefined' && a0 === 'INF') ? 1/0 : " +
				"(typeof a0 !== 'undefined' && a0 === 'NULL') ? null : (typeof a0 !== 'undefined' && a0 === 'UNDEF') ? undefined : " +
				"'defined:' + " + strings.Join(parts, " + ")
		}
		return "'defined:' + " + strings.Join(parts, " + ")
	case "node":
		return "_node"
	case "nodeindirect":
		// the documented global, reached without spelling its name out
		return "this['_no' + 'de']"
	case "badname":
		return "1"
	case "nan":
		return "0/0"
	case "inf":
		return "-1/0"
	case "null":
		return "null"
	case "undef":
		return "undefined"
	case "throw":
		return "throw new Error('boom')"
	case "throwstr":
		return "throw 'just a string'"
	case "posinf":
		return "1/0"
	case "nested":
		return "[[" + c.names[0] + "], [" + c.names[1] + ", [" + c.names[0] + "]]]"
	case "objnull":
		return "({k: null, v: " + c.names[0] + "})"
	case "arrnull":
		return "[null, " + c.names[0] + "]"
	case "booleq":
		return c.names[0] + " === " + c.names[0]
	case "mathfloor":
		return "Math.floor(7.5)"
	case "latejob":
		// script code that runs after the program has ended (a getter, called when the result is
		// converted) leaves work for later: a promise job, which the engine runs when the NEXT program
		// run on that runtime ends. It changes the argument array it finds then.
		return "({get n() { var mine = a0.slice(); Promise.resolve().then(function() { a0.push('late:' + mine.join()) }); return mine.length }, list: a0})"
	case "getter":
		// an exception thrown while the result is being converted (a getter) is still a thrown exception
		return "({get x() { throw new Error('getter boom') }})"
	case "neginf2":
		return "Math.log(0)"
	case "globals":
		// what every runtime has, own or inherited, must be there for every call
		return "[typeof Math, typeof toString, typeof valueOf, typeof hasOwnProperty, typeof constructor, escape('é'), Number('7'), toString.call([])].join(',')"
	case "syntax":
		return "var;"
	case "oddargs":
		return "1"
	}
	return "1"
}

func expectValue(v interface{}) interface{} {
	switch x := v.(type) {
	case int:
		return int64(x)
	case float64:
		if x == math.Trunc(x) && math.Abs(x) < 1e15 {
			return int64(x)
		}
		return x
	}
	return v
}

// normalize makes exported JS values comparable with the model's.
func normalize(v interface{}) interface{} {
	switch x := v.(type) {
	case int:
		return int64(x)
	case int32:
		return int64(x)
	case int64:
		// (a large whole number may come back as an integer or as a float: the same JSON number)
		if x >= 1e15 || x <= -1e15 {
			return float64(x)
		}
		return x
	case float64:
		if x == math.Trunc(x) && math.Abs(x) < 1e15 {
			return int64(x)
		}
		return x
	case []interface{}:
		out := make([]interface{}, len(x))
		for i := range x {
			out[i] = normalize(x[i])
		}
		return out
	case map[string]interface{}:
		out := map[string]interface{}{}
		for k, e := range x {
			out[k] = normalize(e)
		}
		return out
	}
	return v
}

// expected is the stateless reference model of one call.
func (c jsCall) expected(nodeJSON string) (val interface{}, isErr bool) {
	arg := func(i int) interface{} { return expectValue(c.vals[i]) }
	switch c.kind {
	case "echo":
		return arg(0), false
	case "concat":
		return c.vals[0].(string) + c.vals[1].(string), false
	case "sum":
		return int64(c.vals[0].(int) + c.vals[1].(int)), false
	case "arr":
		return []interface{}{arg(0), arg(1)}, false
	case "obj":
		return map[string]interface{}{"k": arg(0)}, false
	case "nested":
		return []interface{}{[]interface{}{arg(0)}, []interface{}{arg(1), []interface{}{arg(0)}}}, false
	case "objnull":
		return map[string]interface{}{"k": nil, "v": arg(0)}, false
	case "arrnull":
		return []interface{}{nil, arg(0)}, false
	case "booleq":
		return true, false
	case "mathfloor":
		return int64(7), false
	case "globals":
		return "object,function,function,function,function,%E9,7,[object Array]", false
	case "probe", "probethrow":
		if c.kind == "probethrow" {
			for i, nm := range c.names {
				if v, isStr := c.vals[i].(string); nm == "a0" && isStr && (v == "THROW" || v == "NAN" || v == "INF" || v == "NULL" || v == "UNDEF") {
					return nil, true
				}
			}
		}
		names := append([]string{}, c.names...)
		sort.Strings(names)
		s := "defined:"
		for _, n := range jsUniverse {
			for _, m := range names {
				if m == n {
					s += n + ","
				}
			}
		}
		if c.ctx {
			s += "_node,"
		}
		return s, false
	case "node":
		return nodeJSON, false
	case "latejob":
		return map[string]interface{}{"n": int64(1), "list": c.vals[0]}, false
	case "nodeindirect":
		if c.ctx {
			return nodeJSON, false
		}
		return nil, true // undefined
	}
	return nil, true
}

type jsTask struct {
	id     int
	calls  []jsCall
	node   *idr.Node
	serial int
	fail   string
	failAt int
	done   int
	sigs   map[string]bool
	counts map[string]int
	family string
	// flavour of the context nodes: 0 plain, 1 as the JSON reader builds them (typed values), 2 as the
	// XML reader builds them (namespace prefixes). Types and prefixes are part of what _node shows.
	flavour int
}

// typedTwins are JSON values that share their text and differ in type only.
var typedTwins = []struct {
	text string
	typ  idr.JSONType
}{{"1", idr.JSONValueStr}, {"1", idr.JSONValueNum}, {"true", idr.JSONValueBool}, {"true", idr.JSONValueStr}, {"", idr.JSONValueNull}, {"", idr.JSONValueStr}}

func (t *jsTask) elem(name string) *idr.Node {
	switch t.flavour {
	case 1:
		return idr.CreateJSONNode(idr.ElementNode, name, idr.JSONProp)
	case 2:
		return idr.CreateXMLNode(idr.ElementNode, name, idr.XMLSpecific{NamespacePrefix: []string{"p", "q"}[t.serial%2], NamespaceURI: "uri://verif/c20"})
	}
	return idr.CreateNode(idr.ElementNode, name)
}

// text makes a value node; twin says that it is to share its text with the value before or after it
func (t *jsTask) text(s string, twin bool) *idr.Node {
	switch t.flavour {
	case 1:
		if twin {
			tw := typedTwins[t.serial%len(typedTwins)]
			return idr.CreateJSONNode(idr.TextNode, tw.text, tw.typ)
		}
		return idr.CreateJSONNode(idr.TextNode, s, idr.JSONValueStr)
	case 2:
		if twin {
			s = "same"
		}
		return idr.CreateXMLNode(idr.TextNode, s, idr.XMLSpecific{})
	}
	return idr.CreateNode(idr.TextNode, s)
}

func (t *jsTask) newNode() {
	t.serial++
	var n *idr.Node
	if t.flavour == 1 {
		n = idr.CreateJSONNode(idr.ElementNode, fmt.Sprintf("rec%d_%d", t.id, t.serial), idr.JSONProp|idr.JSONObj)
	} else {
		n = t.elem(fmt.Sprintf("rec%d_%d", t.id, t.serial))
	}
	for i := 0; i < 1+t.serial%3; i++ {
		c := t.elem(fmt.Sprintf("f%d", i))
		idr.AddChild(n, c)
		idr.AddChild(c, t.text(fmt.Sprintf("v%d-%d-%d", t.id, t.serial, i), false))
	}
	t.node = n
}

func (t *jsTask) runAll(yield func()) {
	t.newNode()
	for i, c := range t.calls {
		if c.emptyVM {
			run.EmptyPools()
			t.counts["vm-pool-emptied"]++
		}
		switch c.mutate {
		case 1: // a new record: the old tree is released, a new one (possibly recycled) is built
			idr.RemoveAndReleaseTree(t.node)
			t.newNode()
			t.counts["node-replaced"]++
		case 2: // an ancestor: same node, children change
			if t.node.FirstChild != nil {
				idr.RemoveAndReleaseTree(t.node.FirstChild)
			}
			t.serial++
			// (typed flavours: six times in seven the new child differs from the one it replaces in
			// type or prefix only - same names, same text, same shape)
			twin := t.flavour != 0 && t.serial%7 != 0
			ch := t.elem("g")
			idr.AddChild(t.node, ch)
			idr.AddChild(ch, t.text(fmt.Sprintf("m%d-%d", t.id, t.serial), twin))
			t.counts["node-mutated-in-place"]++
			if twin {
				t.counts["node-mutated-in-place.type-or-prefix-only"]++
			}
		}
		var args []interface{}
		for j, n := range c.names {
			args = append(args, n, c.vals[j])
		}
		if c.kind == "oddargs" {
			args = append(args, "dangling")
		}
		if c.kind == "badname" {
			// after the good pairs, a pair whose name is not a string (in a schema: a name computed by an
			// xpath that matches nothing): the call is refused while its arguments are being collected
			args = append(args, 123, "v")
		}
		var got interface{}
		var err error
		var panicked string
		func() {
			defer func() {
				if r := recover(); r != nil {
					panicked = run.SafeSprint(r)
				}
			}()
			if c.ctx {
				got, err = v21cf.JavaScriptWithContext(&transformctx.Ctx{}, t.node, c.script(), args...)
			} else {
				got, err = v21cf.JavaScript(&transformctx.Ctx{}, c.script(), args...)
			}
		}()
		t.done++
		t.counts["call."+c.kind]++
		key := strings.Join(c.names, ",")
		t.sigs[key] = true
		want, wantErr := c.expected(idr.JSONify2(t.node))
		desc := fmt.Sprintf("call #%d of task %d: %s(%q, args %v=%v)", i+1, t.id, map[bool]string{true: "JavaScriptWithContext", false: "JavaScript"}[c.ctx], c.script(), c.names, c.vals)
		switch {
		case panicked != "":
			t.fail, t.failAt = desc+" panicked: "+panicked, i
		case wantErr && err == nil:
			t.fail, t.failAt = fmt.Sprintf("%s returned %v (%T) but the model expects an error", desc, got, got), i
		case !wantErr && err != nil:
			t.fail, t.failAt = fmt.Sprintf("%s failed with %q but the model expects %v", desc, err, want), i
		case !wantErr && !reflect.DeepEqual(normalize(got), normalize(want)):
			t.fail, t.failAt = fmt.Sprintf("%s returned %#v, the model expects %#v", desc, got, want), i
		}
		if t.fail != "" {
			return
		}
		if yield != nil {
			yield()
		}
	}
}

func runC20(c *Ctx) []Violation {
	if c.T.Weighted("c20.part", 3, 1) == 1 {
		return runC20Read(c)
	}
	env := baseEnv(c)
	c.T.Begin("c20.cfg")
	family := "general"
	if c.T.Chance("c20.family", 1, 5) {
		family = "ancestor"
	}
	switch c.T.Weighted("c20.cache", 4, 2, 2) {
	case 1:
		env.JSProgCap, env.NodeJSONCap = 1, 1
		c.Count("config.js-caches-capacity-1", 1)
	case 2:
		env.JSCacheOff = true
		c.Count("config.js-caching-off", 1)
	}
	nTasks := 1 + c.T.Weighted("c20.tasks", 4, 3, 2, 1, 1, 1)
	policy := c.T.Weighted("c20.policy", 3, 2, 1)
	c.T.End()
	tasks := make([]*jsTask, nTasks)
	for i := range tasks {
		tasks[i] = &jsTask{id: i, calls: drawCalls(c.T, family), sigs: map[string]bool{}, counts: map[string]int{}, family: family,
			flavour: c.T.Weighted("c20.node-flavour", 2, 2, 1)}
	}
	env.Apply()
	c.Note("%d tasks, family %s; env %s", nTasks, family, env)
	c.Count("family."+family, 1)
	if nTasks == 1 {
		tasks[0].runAll(nil)
	} else {
		s := sched.New(c.T)
		s.Policy = policy
		s.Soft = sched.DrawSoft(c.T, nTasks)
		if sched.Instrumented && len(s.Soft) > 0 && s.Soft[0].SharedOnly {
			c.Count("soft-yields.shared-state-files-only", 1)
		}
		fns := make([]func(*sched.Task), nTasks)
		for i := range tasks {
			t := tasks[i]
			fns[i] = func(st *sched.Task) { t.runAll(st.Yield) }
		}
		res := s.Run(fns)
		if n := s.Met(); n > 0 {
			c.Count("sched.two-tasks-met-at-a-shared-state-statement", int64(n))
		}
		for i, r := range res {
			if r.Panic != "" && tasks[i].fail == "" {
				tasks[i].fail = "task panicked: " + r.Panic
			}
		}
		c.Events += int64(s.Steps)
		c.Count("task-switches", int64(s.Switches))
		c.SigMix(s.TraceSig())
		for _, r := range res {
			c.Count("soft-yields-taken", int64(r.SoftTaken))
		}
	}
	total := 0
	sets := 0
	for _, t := range tasks {
		total += t.done
		sets += len(t.sigs)
		for k, v := range t.counts {
			c.Count(k, int64(v))
		}
		for _, cl := range t.calls {
			c.SigMix(uint64(len(cl.kind))*131 + uint64(len(cl.names)))
			for _, n := range cl.names {
				c.SigMix(uint64(n[1]))
			}
		}
	}
	c.Events += int64(total)
	c.Count("tasks", int64(nTasks))
	if total >= 4 && sets >= 2 {
		c.Nontrivial = true
	}
	c.Ev("c20", total, sets)
	c.Sample = map[string]interface{}{"tasks": nTasks, "family": family, "calls": total, "first_calls": describeCalls(tasks[0].calls, 6)}
	for _, t := range tasks {
		if t.fail == "" {
			continue
		}
		from := t.failAt - 6
		if from < 0 {
			from = 0
		}
		v := viol("C20.model", "a javascript call does not behave as the stateless model: "+clipS(t.fail, 260),
			t.fail, fmt.Sprintf("previous calls of this task: %v", describeCalls(t.calls[from:t.failAt], 8)), "family: "+family, "env: "+env.String())
		fc := t.calls[t.failAt]
		if family == "ancestor" && fc.kind == "node" && c.FindingOpen("nodejson-cache-stale-for-ancestors") && !env.JSCacheOff {
			v.Finding = "nodejson-cache-stale-for-ancestors"
			v.What = "_node of a node that is mutated in place between calls (an ancestor of the records) is served stale from NodeToJSONCache, which is keyed by node ID"
		}
		return []Violation{v}
	}
	return nil
}

func describeCalls(cs []jsCall, max int) []string {
	var out []string
	for i, c := range cs {
		if i >= max {
			out = append(out, "...")
			break
		}
		out = append(out, fmt.Sprintf("%s%v(%s)", map[bool]string{true: "ctx:", false: ""}[c.ctx], c.names, c.kind))
	}
	return out
}
