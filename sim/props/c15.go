package props

import (
	"bytes"
	"encoding/json"
	"fmt"
	"hash/fnv"
	"io/ioutil"
	"os"
	"os/exec"
	"path/filepath"
	"strings"

	"github.com/jf-tech/omniparser/idr"

	"verif/sim/run"
	"verif/sim/simio"
	"verif/sim/tape"
	"verif/sim/world"
)

func init() {
	register(&Info{
		ID: "C15", Fn: runC15,
		Rule: "one case = (probe world, process history): the probe world is transformed first-thing in a canonical process state, then after a tape-generated history of up to 10 other transforms in the same process (other formats, worlds sharing xpath strings / javascript sources / declaration texts with the probe, transforms abandoned mid-stream, transforms ended by I/O faults, caches flushed, pools emptied, no state reset in between), then once more; in 1 of 4 cases it is also transformed first-thing in 3 fresh OS processes (GOMAXPROCS 1, 4, 16; fresh map-iteration seeds). All transcripts (output bytes, checksums, raw records, error texts) must be identical. Checksum clauses: equal raw records have equal checksums; replacing one ingested value in record k changes the checksum of record k and of no other record. Non-trivial = history of >= 2 transforms or a fresh-process comparison; distinct = distinct (probe world hash, history signature).",
		Real: commonReal, Simulated: append(append([]string{}, commonSim...), "the process history (which transforms ran before, how they ended)"),
		Assume: []string{"Go map iteration order cannot be seeded: it is sampled by fresh processes; such a divergence may need several replays", "the 'now' function and scripts drawing randomness are excluded by the property and never generated"},
	})
}

func transcriptHash(keys []string) string {
	h := fnv.New64a()
	for _, k := range keys {
		h.Write([]byte(k))
		h.Write([]byte{1})
	}
	return fmt.Sprintf("%016x", h.Sum64())
}

func c15Probe(w *world.World) *run.Transcript {
	rd := simio.NewReader(w.Input, simio.Whole(len(w.Input)))
	return run.Drive(w, rd, run.Opts{MaxReads: 400})
}

// c15Setup draws the probe world and base environment (shared by parent and child processes).
func c15Setup(c *Ctx) (*world.World, run.Env) {
	var w *world.World
	if c.T.Weighted("c15.src", 1, 3) == 0 {
		w = pickWorld(c, worldOpts{CorpusWeight: 1})
	} else {
		w = genWorld(c, world.GenOpts{MinRecs: 2, MaxRecs: 10, Encodings: true, Family: []string{"", "collide"}[c.T.Intn("c15.family", 2)]})
		c.Count("world.format."+w.Format, 1)
	}
	c.SigMix(w.Hash())
	env := baseEnv(c)
	// the probe may itself be the near-copy of the world just drawn (one flag flipped, one string in
	// another letter case, ...): the history then runs the original - the direction in which a lossy
	// process-wide key serves the probe what an earlier, slightly different schema has left
	c15Base = nil
	if c.T.Chance("c15.probe-is-the-near-copy", 1, 5) {
		for try := 0; try < 3; try++ {
			ns, d := simio.SiblingJSON(c.T, w.Schema)
			if d == "" {
				continue
			}
			env.Apply()
			if s, es, ps := run.NewSchema("sim-schema", ns); s == nil || es != "" || ps != "" {
				continue
			}
			c15Base = w
			nw := w.Clone()
			nw.Schema = ns
			nw.Name = w.Name + " with " + d
			w = nw
			c.Count("probe.is-a-near-copy-of-a-world-run-in-the-history", 1)
			break
		}
	}
	return w, env
}

// c15Base is the world the probe is a near-copy of (nil: the probe is the drawn world itself).
var c15Base *world.World

// C15Child is run in a fresh process: it regenerates the probe world from the tape prefix and
// prints the hash of its first-thing transcript.
func C15Child(vals []uint64) string {
	c := NewCtx(tape.NewReplay(vals), "C15", "quick", 0, 0)
	w, env := c15Setup(c)
	env.Apply()
	return transcriptHash(c15Probe(w).Keys())
}

var c15tmpSeq int

func spawnC15Child(vals []uint64, gomaxprocs int) (string, error) {
	self, err := os.Executable()
	if err != nil {
		return "", err
	}
	home := os.Getenv("VERIF_HOME")
	if home == "" {
		home = "/verif"
	}
	dir := filepath.Join(home, ".build", "tmp")
	os.MkdirAll(dir, 0o755)
	c15tmpSeq++
	f := filepath.Join(dir, fmt.Sprintf("c15-%d-%d.json", os.Getpid(), c15tmpSeq))
	b, _ := json.Marshal(vals)
	if err := ioutil.WriteFile(f, b, 0o644); err != nil {
		return "", err
	}
	defer os.Remove(f)
	cmd := exec.Command(self, "c15child", f)
	cmd.Env = append(os.Environ(), fmt.Sprintf("VERIF_GOMAXPROCS=%d", gomaxprocs), fmt.Sprintf("GOMAXPROCS=%d", gomaxprocs))
	var out, errb bytes.Buffer
	cmd.Stdout, cmd.Stderr = &out, &errb
	if err := cmd.Run(); err != nil {
		return "", fmt.Errorf("child process: %v: %s", err, errb.String())
	}
	return strings.TrimSpace(out.String()), nil
}

func runC15(c *Ctx) []Violation {
	w, env := c15Setup(c)
	setupVals := append([]uint64(nil), c.T.Values()...)
	c.Note("probe world %s; env %s", w.Name, env)
	env.Apply()
	t0 := c15Probe(w)
	k0 := t0.Keys()
	c.Events += int64(len(t0.Entries))
	det := func(extra ...string) []string {
		d := []string{"probe world: " + w.Name}
		d = append(d, extra...)
		if len(w.Schema) < 6000 {
			d = append(d, "schema: "+string(w.Schema))
		}
		if len(w.Input) < 2000 {
			d = append(d, fmt.Sprintf("input: %q", string(w.Input)))
		}
		return d
	}
	// checksum clause 1: equal raw records <=> equal checksums inside the transcript
	byRaw := map[string]string{}
	for i, e := range t0.Entries {
		if e.Class != run.ClsRecord {
			continue
		}
		if cs, ok := byRaw[e.RawJSON]; ok && cs != e.Checksum {
			return []Violation{viol("C15.checksum-equal", w.Format+": two equal raw records have different checksums", det(fmt.Sprintf("record #%d: raw %s checksum %s vs %s", i+1, clipS(e.RawJSON, 200), e.Checksum, cs))...)}
		}
		byRaw[e.RawJSON] = e.Checksum
	}
	// history
	c.T.Begin("c15.history")
	var hist []string
	histSig := uint64(0)
	c.T.Repeat("c15.h", 0, 10, 4, 5, func(int) {
		kind := c.T.Weighted("c15.h.kind", 4, 2, 2, 1, 1, 2, 3)
		histSig = histSig*31 + uint64(kind) + 1
		switch kind {
		case 0, 1, 2: // another transform: complete, abandoned mid-stream, or ended by an I/O fault
			var o *world.World
			if c.T.Bool("c15.h.sameformat") {
				o = genWorld(c, world.GenOpts{Formats: []string{w.Format}, MaxRecs: 6})
			} else {
				o = pickWorld(c, worldOpts{CorpusWeight: 1, GenWeight: 2})
			}
			plan := simio.DrawPlan(c.T, o.Input)
			maxReads := 400
			label := "complete"
			if kind == 1 {
				maxReads = 1 + c.T.Intn("c15.h.abandon", 3)
				label = fmt.Sprintf("abandoned after %d reads", maxReads)
				c.Count("fault.transform-abandoned", 1)
			}
			if kind == 2 {
				off, _ := simio.DrawFaultOffset(c.T, len(o.Input), o.Recs)
				plan.Fault = simio.Fault{Kind: simio.FaultPersistent, Off: off}
				maxReads = 40
				label = "ended by " + plan.Fault.String()
				c.Count("fault.eio-persistent", 1)
			}
			rd := simio.NewReader(o.Input, plan)
			tr := run.Drive(o, rd, run.Opts{MaxReads: maxReads})
			c.Events += int64(rd.Stats.Reads + len(tr.Entries))
			hist = append(hist, o.Name+" ("+label+")")
		case 3:
			env.FlushCaches()
			hist = append(hist, "caches flushed")
			c.Count("fault.caches-flushed", 1)
		case 4:
			run.EmptyPools()
			hist = append(hist, "pools emptied")
			c.Count("fault.pools-emptied", 1)
		case 5: // the probe's own schema with other data (shares every xpath / script / declaration text)
			o := w.Clone()
			if len(o.LRecs) > 0 {
				var texts []string
				for i := len(o.LRecs) - 1; i >= 0; i-- {
					texts = append(texts, o.Render(o.LRecs[i]))
				}
				o = o.WithRecs(texts)
			}
			rd := simio.NewReader(o.Input, simio.DrawPlan(c.T, o.Input))
			tr := run.Drive(o, rd, run.Opts{MaxReads: 400})
			c.Events += int64(rd.Stats.Reads + len(tr.Entries))
			hist = append(hist, "probe schema over reversed records")
		case 6: // (the probe is a near-copy itself: the world it was made from goes first)
			if c15Base != nil {
				rd := simio.NewReader(c15Base.Input, simio.DrawPlan(c.T, c15Base.Input))
				tr := run.Drive(c15Base, rd, run.Opts{MaxReads: 400})
				c.Events += int64(rd.Stats.Reads + len(tr.Entries))
				hist = append(hist, "the world the probe is a near-copy of: "+c15Base.Name)
				c.Count("history.near-copy-schema-run", 1)
				break
			}
			// a near-copy of the probe's schema over the probe's own input: one flag flipped, one
			// string in another letter case or with a blank added, one value taken from a member of
			// the same name - what a process-wide cache with a lossy key takes for the probe's schema
			for try := 0; try < 3; try++ {
				ns, d := simio.SiblingJSON(c.T, w.Schema)
				if d == "" {
					continue
				}
				if s, es, ps := run.NewSchema("sim-schema", ns); s == nil || es != "" || ps != "" {
					c.Count("history.near-copy-schema-rejected", 1)
					continue
				}
				o := w.Clone()
				o.Schema = ns
				rd := simio.NewReader(o.Input, simio.DrawPlan(c.T, o.Input))
				tr := run.Drive(o, rd, run.Opts{MaxReads: 400})
				c.Events += int64(rd.Stats.Reads + len(tr.Entries))
				hist = append(hist, "near-copy of the probe schema ("+d+") over the probe's input")
				c.Count("history.near-copy-schema-run", 1)
				break
			}
		}
	})
	c.T.End()
	c.SigMix(histSig)
	for _, h := range hist {
		c.Note("history: %s", h)
	}
	c.Count("history.steps", int64(len(hist)))
	for pass := 1; pass <= 2; pass++ {
		t := c15Probe(w)
		k := t.Keys()
		c.Events += int64(len(t.Entries))
		if d := run.FirstDiff(k0, k); d >= 0 {
			return []Violation{viol("C15.history", fmt.Sprintf("%s: result #%d differs between a first-thing run and a run after other transforms in the same process", w.Format, d+1),
				det(fmt.Sprintf("history (%d steps): %v", len(hist), hist), fmt.Sprintf("pass %d after the history", pass),
					"first-thing:   "+run.ShowKey(k0, d), "after history: "+run.ShowKey(k, d))...)}
		}
	}
	c.Ev("c15", k0, hist)
	if len(hist) >= 2 {
		c.Nontrivial = true
	}
	// checksum clause 2: a replaced ingested value changes exactly that record's checksum
	// (the two clauses below rest on what the generator knows about its own schema - which bytes are an
	// ingested value, which records the filter lets through; a probe that is a near-copy of the
	// generated schema is not described by that knowledge, so they are not evaluated on it)
	modelValid := c15Base == nil
	if modelValid && len(w.LRecs) > 0 && w.Render != nil {
		c.T.Begin("c15.flip")
		k := c.T.Intn("c15.flip.rec", len(w.LRecs))
		fi := 1 + c.T.Intn("c15.flip.field", len(w.LRecs[k].Vals)-1)
		c.T.End()
		recs := append([]world.LRec{}, w.LRecs...)
		nr := world.LRec{Vals: append([]string{}, recs[k].Vals...), Items: recs[k].Items}
		retyped := false
		if (w.Format == "json" || w.Format == "jsonlog") && world.IsDigits(nr.Vals[w.Shape.IntIdx]) && c.T.Chance("c15.flip.type-only", 1, 3) {
			// the same digits stored as the other JSON type (7 <-> "7"): a different ingested value,
			// with the same text
			fi, retyped = w.Shape.IntIdx, true
			nr.OtherType = !recs[k].OtherType
			c.Count("fault.stored-value-retyped", 1)
		} else if fi == w.Shape.IntIdx {
			nr.Vals[fi] = nr.Vals[fi] + "7"
		} else if c.T.Bool("c15.flip.at-the-end") {
			// (the end of a value is not the beginning: a value may be stored in several pieces)
			nr.Vals[fi] = nr.Vals[fi] + "Q"
		} else {
			nr.Vals[fi] = "Q" + nr.Vals[fi]
		}
		recs[k] = nr
		if w.Render(nr) == w.Render(w.LRecs[k]) {
			// the stored bytes did not change (a fixed-width column cut the longer value): nothing to observe
			c.Count("checksum-flip.not-visible-in-stored-bytes", 1)
			recs = nil
		}
		var texts []string
		for _, r := range recs {
			texts = append(texts, w.Render(r))
		}
		w2 := w.WithRecs(texts)
		t2 := c15Probe(w2)
		c.Count("fault.stored-value-replaced", 1)
		// align by visible records
		vis := -1
		pos := -1
		for i, r := range w.LRecs {
			if w.Shape.SkipValue == "" || r.Vals[0] != w.Shape.SkipValue {
				vis++
				if i == k {
					pos = vis
				}
			}
		}
		if recs != nil && len(t2.Entries) == len(t0.Entries) {
			for i := range t0.Entries {
				a, b := t0.Entries[i], t2.Entries[i]
				if a.Class != run.ClsRecord || b.Class != run.ClsRecord {
					continue
				}
				if i == pos && a.Checksum == b.Checksum {
					v := viol("C15.checksum-sensitive", w.Format+": replacing an ingested value does not change the record's checksum",
						det(fmt.Sprintf("record #%d field %d: raw %s -> %s, checksum %s both times", i+1, fi, clipS(a.RawJSON, 200), clipS(b.RawJSON, 200), a.Checksum),
							"record before: "+clipS(w.Render(w.LRecs[k]), 300), "record after:  "+clipS(w.Render(nr), 300), fmt.Sprintf("only the JSON type of the value changed: %v", retyped),
							"output before: "+clipS(a.Out, 300), "output after:  "+clipS(b.Out, 300))...)
					// known finding: the checksum is computed from idr.JSONify2 of the record, which leaves out
					// the attributes of an element that has text and no child elements
					if w.Format == "xml" && w.Tag("xml.leaf-attribute") == fmt.Sprint(fi) && a.RawJSON == b.RawJSON && c.FindingOpen("xml-checksum-ignores-attributes-of-text-elements") {
						v.Finding = "xml-checksum-ignores-attributes-of-text-elements"
						v.What = "xml: two records that differ only in an attribute of a text-only element have the same checksum"
					}
					// ... and text that stands next to child elements (mixed content) altogether
					if w.Format == "xml" && w.Tag("xml.mixed-content-text") == fmt.Sprint(fi) && a.RawJSON == b.RawJSON && c.FindingOpen("xml-checksum-ignores-mixed-content-text") {
						v.Finding = "xml-checksum-ignores-mixed-content-text"
						v.What = "xml: two records that differ only in text standing next to child elements (mixed content) have the same checksum"
					}
					// ... and an element whose child elements all have one name as the array of their values
					if w.Format == "xml" && w.Tag("xml.array-like-attribute") == fmt.Sprint(fi) && a.RawJSON == b.RawJSON && c.FindingOpen("xml-checksum-ignores-attributes-of-array-like-elements") {
						v.Finding = "xml-checksum-ignores-attributes-of-array-like-elements"
						v.What = "xml: two records that differ only in an attribute of an element whose children all have one name have the same checksum"
					}
					return []Violation{v}
				}
				if i != pos && a.Checksum != b.Checksum {
					return []Violation{viol("C15.checksum-local", w.Format+": replacing a value in one record changes the checksum of another record",
						det(fmt.Sprintf("changed record #%d, but record #%d: checksum %s -> %s (raw %s)", pos+1, i+1, a.Checksum, b.Checksum, clipS(a.RawJSON, 200)))...)}
				}
			}
		}
	}
	// checksum clause 3: two values that differ in a byte which is no UTF-8 at all (a Latin-1 file read
	// under the default encoding). The line-based formats and EDI ingest such bytes as they are - a
	// custom function sees them - so they are ingested values like any other.
	if modelValid && len(w.LRecs) > 0 && w.Render != nil && w.Tag("encoding") == "" && c.T.Chance("c15.invalid-utf8-pair", 1, 5) &&
		(w.Format == "csv" || w.Format == "csv2" || w.Format == "fixed-length" || w.Format == "fixedlength2" || w.Format == "edi") {
		c.T.Begin("c15.badbytes")
		k := c.T.Intn("c15.badbytes.rec", len(w.LRecs))
		fi := 1 + c.T.Intn("c15.badbytes.field", len(w.LRecs[k].Vals)-1)
		c.T.End()
		if fi != w.Shape.IntIdx {
			mk := func(b string) (*world.World, string) {
				recs := append([]world.LRec{}, w.LRecs...)
				nr := world.LRec{Vals: append([]string{}, recs[k].Vals...), Items: recs[k].Items}
				nr.Vals[fi] = nr.Vals[fi] + b
				recs[k] = nr
				var texts []string
				for _, r := range recs {
					texts = append(texts, w.Render(r))
				}
				return w.WithRecs(texts), w.Render(nr)
			}
			wa, ra := mk("\xe9")
			wb, rb := mk("\xe8")
			ta, tb := c15Probe(wa), c15Probe(wb)
			c.Count("fault.stored-value-differs-in-an-invalid-utf8-byte", 1)
			if ra != rb && len(ta.Entries) == len(tb.Entries) {
				for i := range ta.Entries {
					a, b := ta.Entries[i], tb.Entries[i]
					if a.Class != run.ClsRecord || b.Class != run.ClsRecord || !(strings.Contains(a.RawJSON, "\ufffd") || strings.Contains(a.RawJSON, `\ufffd`)) {
						continue
					}
					if a.Checksum == b.Checksum {
						v := viol("C15.checksum-sensitive", w.Format+": two records that differ in one ingested byte have the same checksum",
							det(fmt.Sprintf("record #%d field %d ends in the byte 0xE9 in one input and in 0xE8 in the other (neither is UTF-8); raw %s both times, checksum %s both times", i+1, fi, clipS(a.RawJSON, 200), a.Checksum),
								fmt.Sprintf("record in one input: %q", clipS(ra, 300)), fmt.Sprintf("in the other:        %q", clipS(rb, 300)))...)
						// known finding: the checksum is taken over json.Marshal's output, which writes U+FFFD for
						// every byte that is not UTF-8
						if a.RawJSON == b.RawJSON && c.FindingOpen("checksum-collapses-bytes-that-are-not-utf8") {
							v.Finding = "checksum-collapses-bytes-that-are-not-utf8"
							v.What = w.Format + ": two records that differ only in bytes that are not valid UTF-8 have the same raw-record JSON (U+FFFD for each) and the same checksum"
						}
						return []Violation{v}
					}
				}
			}
		}
	}
	// fresh processes
	if c.T.Chance("c15.fresh", 1, 4) {
		want := transcriptHash(k0)
		for _, gmp := range []int{1, 4, 16} {
			got, err := spawnC15Child(setupVals, gmp)
			if err != nil {
				panic("harness: " + err.Error())
			}
			c.Count("fresh-process-runs", 1)
			c.Nontrivial = true
			if got != want {
				return []Violation{viol("C15.fresh-process", fmt.Sprintf("%s: the transcript of a fresh process (GOMAXPROCS=%d) differs from this process's", w.Format, gmp),
					det(fmt.Sprintf("transcript hash here %s, in the fresh process %s", want, got))...)}
			}
		}
	}
	c.Sample = map[string]interface{}{"probe": w.Name, "history": hist, "results": len(t0.Entries)}
	return nil
}

var _ = idr.JSONify2
