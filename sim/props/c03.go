package props

import (
	"fmt"
	"regexp"
	"strings"

	"verif/sim/run"
	"verif/sim/simio"
	"verif/sim/world"
)

func init() {
	register(&Info{
		ID: "C03", Fn: runC03,
		Rule: "one case = (world, storage faults on schema and/or input, delivery plan): 1-3 storage faults {bit flip, byte overwrite, zeroed/dropped/duplicated/swapped block, foreign splice, truncation, junk insertion} applied to a well-formed schema/input pair (JavaScript source text masked), then NewSchema / NewTransform / Read-until-terminal under recover with a Read bound of 2*len(input)+64 and a per-call watchdog. Non-trivial = at least one storage fault was applied; distinct = distinct (damaged schema+input hash, plan signature).",
		Real: commonReal, Simulated: commonSim,
		Assume: []string{"scope: fault-derived inputs (damage to well-formed pairs), not grammar-aware adversarial schema synthesis", "reader errors (EIO) are not injected here; they are C16's subject", "byte ranges of JavaScript source strings are masked from damage; a hang parked inside goja is classified as user JavaScript (excluded by the property)"},
	})
}

var jsArgRe = regexp.MustCompile(`"name"\s*:\s*"javascript(?:_with_context)?"\s*,\s*"args"\s*:\s*\[\s*\{\s*"const"\s*:\s*"((?:[^"\\]|\\.)*)"`)

// jsMasker protects JavaScript source text in a schema from storage faults.
func jsMasker(cur []byte) func(int) bool {
	locs := jsArgRe.FindAllSubmatchIndex(cur, -1)
	if len(locs) == 0 {
		return nil
	}
	return func(off int) bool {
		for _, l := range locs {
			// protect the whole match (name, args opener and the script) so that damage cannot
			// turn other text into the script argument either
			if off >= l[0]-1 && off <= l[1]+1 {
				return true
			}
		}
		return false
	}
}

// runC03Deep is the "absurdly deep but well-formed input" scenario: the stream readers build their
// trees from tokens, one node per level, and everything downstream walks the tree recursively.
func runC03Deep(c *Ctx) []Violation {
	format := c.T.Pick("c03.deep.format", "json", "xml", "json")
	depth := []int{12000, 300000}[c.T.Intn("c03.deep.depth", 2)]
	target := c.T.Pick("c03.deep.target", ".", "/*")
	var in strings.Builder
	out := `{"custom_func": {"name": "copy"}}`
	if c.T.Bool("c03.deep.const") {
		out = `{"object": {"k": {"const": "k"}}}`
	}
	if c.T.Chance("c03.deep.script-result", 1, 3) {
		// ... or it is a script's result that is nested that deep (built by a loop of a few lines)
		format, target = "json", "/*"
		in.WriteString(`[{"x":1}]`)
		shape := c.T.Pick("c03.deep.script-shape", "r = [r]", "r = {n: r}", "r = [1, r]")
		script := fmt.Sprintf("var r = []; for (var i = 0; i < %d; i++) { %s } r", depth, shape)
		if c.T.Chance("c03.deep.script-odd", 1, 2) {
			// results that are small to build and enormous, or endless, to convert or to write out
			script = c.T.Pick("c03.deep.script-odd.kind",
				// nesting hidden behind values that are referred to twice: chains of 9000 arrays, each hanging below the next
				"var prev = []; var o = {}; for (var k = 0; k < 40; k++) { var r = prev; for (var i = 0; i < 9000; i++) { r = [r] } o['c' + (100 + k)] = r; prev = r } o",
				// 40 arrays, written out as 2^40
				"var a = []; for (var i = 0; i < 40; i++) { a = [a, a] } a",
				// an array that is all length
				"var a = []; a.length = 4294967295; a",
				// a result that is something else the second time it is looked at
				"var n = 0; var m = new Map(); m.set('s', m); var o = {}; Object.defineProperty(o, 'a', {enumerable: true, get: function() { return n++ ? m : 1 }}); o",
				// a Map that contains itself and shows nothing to those who iterate over it
				"var m = new Map(); m.set('s', m); m[Symbol.iterator] = function() { return [][Symbol.iterator]() }; m")
		}
		out = fmt.Sprintf(`{"object": {"a": {"custom_func": {"name": "javascript", "args": [{"const": %q}]}}}}`, script)
		if c.T.Bool("c03.deep.script-result.twice") {
			out = out[:len(out)-2] + `, "b": ` + out[len(`{"object": {"a": `):]
		}
	} else if format == "json" {
		in.WriteString(strings.Repeat("[", depth) + strings.Repeat("]", depth))
	} else {
		in.WriteString(strings.Repeat("<a>", depth) + strings.Repeat("</a>", depth))
	}
	schema := `{"parser_settings": {"version": "omni.2.1", "file_format_type": "` + format + `"}, "transform_declarations": {"FINAL_OUTPUT": {"xpath": "` + target + `", ` + out[1:] + `}}`
	w := &world.World{Name: fmt.Sprintf("deep:%s(depth=%d)", format, depth), Format: format, Schema: []byte(schema), Input: []byte(in.String())}
	env := baseEnv(c)
	env.Apply()
	plan := simio.DrawPlan(c.T, w.Input)
	rd := simio.NewReader(w.Input, plan)
	tr := run.Drive(w, rd, run.Opts{MaxReads: 8, KeepOnlyLast: 2})
	c.Events += int64(rd.Stats.Reads + len(tr.Entries))
	c.Count("world.deep-nesting", 1)
	c.Nontrivial = true
	c.SigMix(uint64(depth))
	c.Ev("c03-deep", format, depth, len(tr.Entries))
	c.Sample = map[string]interface{}{"world": w.Name, "results": len(tr.Entries)}
	if tr.SchemaErr != "" || tr.SchemaPanic != "" {
		panic("harness: deep-nesting schema rejected: " + tr.SchemaErr + tr.SchemaPanic)
	}
	for i, e := range tr.Entries {
		if e.Class == run.ClsPanic {
			return []Violation{viol("C03.panic-read", format+": Read panics on a deeply nested input: "+clipS(e.Err, 160), "world: "+w.Name, fmt.Sprintf("Read #%d", i+1), panicSite(e.Stack))}
		}
	}
	if tr.HitReadLimit {
		return []Violation{viol("C03.unbounded", format+": no terminal result on a deeply nested input", "world: "+w.Name)}
	}
	return nil
}

func runC03(c *Ctx) []Violation {
	if c.T.Chance("c03.deep", 1, 250) {
		return runC03Deep(c)
	}
	var w *world.World
	if c.T.Chance("c03.numeric-filter", 1, 12) {
		// own scenario family of an open known finding: a target filter that compares with a number
		w = genWorld(c, world.GenOpts{NumericFilter: true, Encodings: true})
		c.Count("world.family.numeric-filter", 1)
	} else {
		w = pickWorld(c, worldOpts{CorpusWeight: 2, GenWeight: 3, Encodings: true, Pathological: true})
	}
	env := baseEnv(c)
	ww := w.Clone()
	corpus, _ := world.Corpus()
	var foreign [][]byte
	for i := 0; i < 3 && len(corpus) > 0; i++ {
		f := corpus[c.T.Intn("c03.foreign", len(corpus))]
		foreign = append(foreign, f.Input)
	}
	var desc []string
	what := c.T.Weighted("c03.target", 3, 2, 2, 4) // input, schema, both, schema at JSON-structure level
	if what == 3 {
		var d, kinds []string
		ww.Schema, d, kinds = simio.DamageJSON(c.T, ww.Schema)
		for _, k := range kinds {
			c.Count("fault.schema."+k, 1)
		}
		for _, x := range d {
			desc = append(desc, "schema: "+x)
		}
	}
	if what == 1 || what == 2 {
		var d, kinds []string
		ww.Schema, d, kinds = simio.Damage(c.T, ww.Schema, foreign, jsMasker, 2)
		for _, k := range kinds {
			c.Count("fault.schema."+k, 1)
		}
		for _, x := range d {
			desc = append(desc, "schema: "+x)
		}
	}
	if what == 0 || what == 2 {
		var d, kinds []string
		ww.Input, d, kinds = simio.Damage(c.T, ww.Input, foreign, nil, 3)
		for _, k := range kinds {
			c.Count("fault.input."+k, 1)
		}
		for _, x := range d {
			desc = append(desc, "input: "+x)
		}
	}
	if c.T.Chance("c03.concat", 1, 10) {
		// concatenated data: the input twice
		ww.Input = append(append([]byte{}, ww.Input...), ww.Input...)
		desc = append(desc, "input: concatenated with itself")
		c.Count("fault.input.concatenated", 1)
	}
	plan := simio.DrawPlan(c.T, ww.Input)
	c.Note("world %s (format %s); env %s", w.Name, w.Format, env)
	c.Note("storage faults: %v", desc)
	c.Note("delivery plan: %s", plan.String())
	if len(desc) > 0 {
		c.Nontrivial = true
	}
	env.Apply()
	rd := simio.NewReader(ww.Input, plan)
	bound := 2*len(ww.Input) + 64
	tr := run.Drive(ww, rd, run.Opts{MaxReads: bound, KeepOnlyLast: 8})
	c.Events += int64(rd.Stats.Reads + len(tr.Entries))
	c.SigMix(ww.Hash())
	c.SigMix(plan.Sig())
	c.Ev("c03", desc, plan.Sig(), len(tr.Entries), tr.SchemaErr, tr.TransformErr)
	switch {
	case tr.SchemaErr != "":
		c.Count("outcome.schema-rejected", 1)
	case tr.TransformErr != "":
		c.Count("outcome.newtransform-error", 1)
	default:
		c.Count("outcome.schema-accepted", 1)
	}
	for _, e := range tr.Entries {
		c.Count("result."+e.Class, 1)
	}
	c.Sample = map[string]interface{}{"world": w.Name, "storage_faults": desc, "plan": plan.Mode, "schema_accepted": tr.SchemaErr == "" && tr.SchemaPanic == "", "results": len(tr.Entries)}
	det := func(extra ...string) []string {
		d := []string{"world: " + w.Name, fmt.Sprintf("storage faults: %v", desc), "delivery plan: " + plan.String()}
		d = append(d, extra...)
		if len(ww.Schema) < 6000 && what >= 1 {
			d = append(d, "damaged schema: "+string(ww.Schema))
		}
		if len(ww.Input) < 3000 {
			d = append(d, fmt.Sprintf("input as delivered: %q", string(ww.Input)))
		}
		return d
	}
	mk := func(clause, whatFails, site string, extra ...string) []Violation {
		v := viol(clause, whatFails, det(extra...)...)
		_ = site
		return []Violation{v}
	}
	if tr.SchemaPanic != "" {
		return mk("C03.panic-newschema", "NewSchema panics on a damaged schema: "+clipS(tr.SchemaPanic, 160), "")
	}
	if tr.TransformPanic != "" {
		return mk("C03.panic-newtransform", "NewTransform panics: "+clipS(tr.TransformPanic, 160), "")
	}
	for i, e := range tr.Entries {
		if e.Class == run.ClsPanic {
			vs := mk("C03.panic-read", w.Format+": Read panics: "+clipS(e.Err, 160), "",
				fmt.Sprintf("Read #%d panicked: %s", i+1, e.Err), panicSite(e.Stack))
			// (repaired in /repo since; the matcher stays, inert unless the finding is listed as open again)
			// known finding: the target (FINAL_OUTPUT) xpath is evaluated by the readers through
			// idr.MatchAny, which does not guard against the xpath engine's evaluation-time panics
			if strings.Contains(e.Stack, "omniparser/idr.MatchAny(") && strings.Contains(e.Stack, "antchfx/xpath") && c.FindingOpen("target-xpath-eval-panic") {
				vs[0].Finding = "target-xpath-eval-panic"
				vs[0].What = "an evaluation-time error of the xpath engine in the FINAL_OUTPUT target filter (idr.MatchAny in a reader) panics out of Read: " + clipS(e.Err, 100)
			}
			return vs
		}
	}
	if tr.HitReadLimit {
		return mk("C03.unbounded", fmt.Sprintf("%s: no terminal result after %d Reads on a %d-byte input", w.Format, bound, len(ww.Input)), "")
	}
	if c.T.Chance("c03.schema-reader-fault", 1, 8) && len(ww.Schema) > 0 {
		// the schema arrives through an io.Reader as well: it may fail or end early at any offset,
		// under any delivery; NewSchema must then answer with a Schema or an error, nothing else
		splan := simio.DrawPlan(c.T, ww.Schema)
		splan.Fault = simio.Fault{Kind: 1 + c.T.Intn("c03.sfault.kind", 3), Off: c.T.Intn("c03.sfault.off", len(ww.Schema)+1),
			WithData: c.T.Bool("c03.sfault.withdata"), ErrKind: c.T.Intn("c03.sfault.err", 3)}
		if splan.Fault.Kind == simio.FaultTransient {
			splan.Fault.Extra = c.T.Intn("c03.sfault.extra", 64)
		}
		env.Apply()
		srd := simio.NewReader(ww.Schema, splan)
		s, es, ps := run.NewSchemaFrom("sim-schema", srd)
		c.Count("fault.schema-reader."+simio.FaultName(splan.Fault.Kind), 1)
		c.Events += int64(srd.Stats.Reads)
		c.Ev("c03-schema-reader", splan.Sig(), es, ps)
		switch {
		case ps != "":
			return mk("C03.panic-newschema", "NewSchema panics when the schema reader fails: "+clipS(ps, 160), "", "schema reader: "+splan.String())
		case s == nil && es == "":
			return mk("C03.newschema-nil-nil", "NewSchema returns neither a Schema nor an error when the schema reader fails", "", "schema reader: "+splan.String())
		}
	}
	return nil
}

// panicSite extracts the first frames below the panic that belong to the repository.
func panicSite(stack string) string {
	var out []string
	lines := strings.Split(stack, "\n")
	for i, l := range lines {
		if strings.Contains(l, "jf-tech/omniparser") && !strings.HasPrefix(l, "\t") && i+1 < len(lines) {
			out = append(out, strings.TrimSpace(l)+" @ "+strings.TrimSpace(lines[i+1]))
			if len(out) >= 4 {
				break
			}
		}
	}
	return "panic site: " + strings.Join(out, " <- ")
}
