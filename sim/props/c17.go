package props

import (
	"fmt"

	"verif/sim/run"
	"verif/sim/simio"
	"verif/sim/world"
)

func init() {
	register(&Info{
		ID: "C17", Fn: runC17,
		Rule: "one case = one long generated stream of one format: N target records (quick 1500-4000, thorough up to 200000) drawn in tape order from <= 6 prototype records under a fixed set of ancestors, a tape-chosen share rejected by the FINAL_OUTPUT filter, a share whose transform fails, optional blank lines / whitespace / comments between records, arbitrary delivery plan. After every successful Read the number of nodes reachable from the delivered record (root via Parent, then all descendants) is measured; with a warm-up of 64 records that contains every prototype, every later size must not exceed the warm-up maximum. Non-trivial = more than 1000 records were delivered after the warm-up; distinct = distinct (world hash, plan signature).",
		Real: commonReal, Simulated: commonSim,
		Assume: []string{"the garbage collector is left on during these long runs (pool contents are irrelevant to the measured quantity)"},
	})
}

func runC17(c *Ctx) []Violation {
	const warm = 64
	o := world.GenOpts{MinRecs: 3, MaxRecs: 6, Encodings: false, NoSiblingContext: true, TwoFilters: true}
	// one world in six has a target filter that compares a field with a number: a record whose field is
	// not a number makes the filter itself fail (on the tree as it stands that ends the transform)
	o.NumericFilter = c.T.Chance("c17.numeric-filter", 1, 6)
	w := genWorld(c, o)
	c.Count("world.format."+w.Format, 1)
	protos := append([]world.LRec{}, w.LRecs...)
	// make sure rejected and failing prototypes exist when the tape wants them
	c.T.Begin("c17.mix")
	if w.Shape.SkipValue != "" {
		p := world.LRec{Vals: append([]string{}, protos[0].Vals...), Items: protos[0].Items}
		p.Vals[0] = w.Shape.SkipValue
		protos = append(protos, p)
		c.Count("workload.has-filtered-records", 1)
	}
	filterFails := -1
	if o.NumericFilter {
		for i := range protos {
			if !world.IsDigits(protos[i].Vals[w.Shape.IntIdx]) {
				protos[i].Vals[w.Shape.IntIdx] = "7" // (odd numeric texts would end the stream within the first records)
			}
		}
		c.Count("workload.numeric-target-filter", 1)
	}
	if c.T.Bool("c17.failing") {
		p := world.LRec{Vals: append([]string{}, protos[0].Vals...), Items: protos[0].Items}
		p.Vals[w.Shape.IntIdx] = "notanumber"
		protos = append(protos, p)
		c.Count("workload.has-failing-records", 1)
	}
	n := 1500 + c.T.Intn("c17.n", 2500)
	if c.Tier == "thorough" {
		switch c.T.Weighted("c17.scale", 6, 3, 1) {
		case 1:
			n = 20000 + c.T.Intn("c17.n2", 30000)
		case 2:
			n = 150000 + c.T.Intn("c17.n3", 50000)
		}
	}
	texts := make([]string, 0, n)
	rendered := make([]string, len(protos))
	for i, p := range protos {
		rendered[i] = w.Render(p)
	}
	for i := 0; i < len(protos); i++ {
		texts = append(texts, rendered[i])
	}
	// cheap tape usage: one draw per block of records
	for len(texts) < n {
		k := c.T.Intn("c17.proto", len(protos))
		rep := 1 + c.T.Intn("c17.rep", 40)
		for j := 0; j < rep && len(texts) < n; j++ {
			texts = append(texts, rendered[(k+j)%len(protos)])
		}
	}
	if o.NumericFilter && c.T.Bool("c17.filter-fails") {
		// records the filter cannot be evaluated on, well behind the warm-up: every 37th record from a drawn position on
		p := world.LRec{Vals: append([]string{}, protos[0].Vals...), Items: protos[0].Items}
		p.Vals[w.Shape.IntIdx] = "N/A"
		bad := w.Render(p)
		filterFails = 100 + c.T.Intn("c17.filter-fails.from", 400)
		for i := filterFails; i < len(texts); i += 37 {
			texts[i] = bad
		}
		c.Count("workload.has-records-the-filter-fails-on", 1)
	}
	c.T.End()
	ww := w.WithRecs(texts)
	env := baseEnv(c)
	env.KeepGC = true
	plan := simio.DrawPlan(c.T, ww.Input[:minInt(len(ww.Input), 1<<16)])
	// extend the plan over the whole input with the same mode's typical chunk (plans over
	// megabytes of input would make the tape huge): beyond the planned prefix deliver in
	// chunks of a tape-chosen fixed size.
	tailChunk := []int{1, 7, 128, 4096, 4097, 65536}[c.T.Intn("c17.tailchunk", 6)]
	if len(plan.Cuts) > 0 && plan.Cuts[len(plan.Cuts)-1] < len(ww.Input) {
		plan.TailChunk = tailChunk
	}
	c.Note("world %s with %d records from %d prototypes (%d input bytes); env %s", w.Name, len(texts), len(protos), len(ww.Input), env)
	c.Note("delivery plan: %s, tail chunk %d", plan.Mode, tailChunk)
	env.Apply()
	rd := simio.NewReader(ww.Input, plan)
	// what the Transform itself retains (any object reachable from it, wherever the library keeps
	// it) is counted after records 16, 32, 48, 64 and after every 256th record from then on
	retainedAt := func(delivered int) bool {
		return (delivered <= warm && delivered%16 == 0) || (delivered > warm && delivered%256 == 0)
	}
	tr := run.Drive(ww, rd, run.Opts{Measure: true, MaxReads: len(texts) + 16, KeepOnlyLast: 2, RetainedAt: retainedAt})
	c.Events += int64(rd.Stats.Reads + len(tr.Entries))
	c.SigMix(ww.Hash())
	c.SigMix(plan.Sig())
	maxS, maxE := 0, 0
	maxTree := 0
	warmRetained, lastRetained, lastRetainedAt := 0, 0, 0
	delivered := 0
	var firstBadS, firstBadE = -1, -1
	var lastS, lastE int
	for _, e := range tr.Entries {
		c.Count("result."+e.Class, 1)
		if e.Class != run.ClsRecord {
			continue
		}
		delivered++
		if e.Reach > maxTree {
			maxTree = e.Reach
		}
		if e.Retained > 0 {
			if delivered <= warm {
				if e.Retained > warmRetained {
					warmRetained = e.Retained
				}
			} else {
				lastRetained, lastRetainedAt = e.Retained, delivered
				c.Count("retained-objects.measured-after-warm-up", 1)
			}
		}
		if delivered <= warm {
			if e.Reach > maxS {
				maxS = e.Reach
			}
			if e.ReachE > maxE {
				maxE = e.ReachE
			}
			continue
		}
		if e.Reach > maxS && firstBadS < 0 {
			firstBadS = delivered
		}
		if e.ReachE > maxE && firstBadE < 0 {
			firstBadE = delivered
		}
		lastS, lastE = e.Reach, e.ReachE
	}
	c.Ev("c17", len(tr.Entries), delivered, maxS, maxE, lastS, lastE)
	if delivered > warm+1000 {
		c.Nontrivial = true
	}
	c.Count("records.delivered", int64(delivered))
	c.Sample = map[string]interface{}{"world": w.Name, "records_in_input": len(texts), "delivered": delivered, "input_bytes": len(ww.Input), "warmup_max_reachable": maxS, "last_reachable": lastS, "plan": plan.Mode}
	last := tr.Entries[len(tr.Entries)-1]
	if tr.HitReadLimit || last.Class != run.ClsEOF {
		// the stream did not end normally: not C17's subject, but nothing was measured wrongly either
		c.Count("stream.did-not-reach-eof", 1)
		c.Note("stream ended with %s", last.Short())
	}
	det := []string{"world: " + w.Name, fmt.Sprintf("%d records in the input, %d delivered, warm-up %d", len(texts), delivered, warm),
		fmt.Sprintf("reachable nodes: warm-up maximum %d, last delivered record %d", maxS, lastS),
		fmt.Sprintf("reachable nodes ignoring text nodes directly under ancestors: warm-up maximum %d, last %d", maxE, lastE),
		"schema: " + string(w.Schema), fmt.Sprintf("first 600 input bytes: %q", string(ww.Input[:minInt(600, len(ww.Input))]))}
	if firstBadE >= 0 {
		v := viol("C17.growth", fmt.Sprintf("%s: the tree reachable from a delivered record grows with the number of records delivered (%d nodes within the warm-up, %d at record %d)", w.Format, maxE, lastE, delivered),
			append(det, fmt.Sprintf("first record exceeding the warm-up maximum: #%d", firstBadE))...)
		// known finding: only the last filter of a stream xpath's last step is held back until the
		// candidate is complete; an element that fails an earlier one is never a candidate and stays
		if (w.Format == "xml" || w.Format == "json") && w.Tag("target.two-filters-on-the-last-step") == "1" && c.FindingOpen("stream-xpath-two-filters-rejected-element-retained") {
			v.Finding = "stream-xpath-two-filters-rejected-element-retained"
			v.What = w.Format + ": stream xpath with two filters on its last step: an element that fails the first filter is never a stream candidate, is never removed, and the reachable tree grows by one element per rejected record"
		}
		return []Violation{v}
	}
	if firstBadS >= 0 {
		v := viol("C17.growth-text", fmt.Sprintf("%s: text nodes accumulate under the ancestors of the records (%d reachable nodes within the warm-up, %d at record %d)", w.Format, maxS, lastS, delivered),
			append(det, fmt.Sprintf("first record exceeding the warm-up maximum: #%d", firstBadS))...)
		if w.Format == "xml" && c.FindingOpen("xml-inter-record-chardata-retained") {
			v.Finding = "xml-inter-record-chardata-retained"
			v.What = "xml: character data between records is attached to the enclosing element and never released, so the reachable tree grows by one text node per record"
		}
		return []Violation{v}
	}
	// What the Transform retains as a whole. Records of different prototypes have trees of different
	// sizes, and the measurements are taken at a few records only: the allowance is twice the largest
	// tree any record had, plus 64. One more retained object per delivered record exceeds it after a
	// few hundred records.
	if warmRetained > 0 && lastRetainedAt >= warm+512 && lastRetained > warmRetained+2*maxTree+64 {
		return []Violation{viol("C17.retained", fmt.Sprintf("%s: what the Transform retains grows with the number of records delivered (%d objects reachable from it within the warm-up, %d after record %d)", w.Format, warmRetained, lastRetained, lastRetainedAt),
			append(det, fmt.Sprintf("objects reachable from the Transform (pointers followed, map entries and slice elements counted): at most %d after records 16..64, %d after record %d; largest record tree %d nodes", warmRetained, lastRetained, lastRetainedAt, maxTree))...)}
	}
	return nil
}
