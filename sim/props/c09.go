package props

import (
	"bytes"
	"fmt"
	"github.com/jf-tech/omniparser/idr"
	"regexp"
	"strings"

	"verif/sim/run"
	"verif/sim/simio"
	"verif/sim/world"
)

func init() {
	register(&Info{
		ID: "C09", Fn: runC09,
		Rule: "one case = (world, delivery plan): the world is a corpus sample (optionally with BOM / declared single-byte encoding) or a generated schema+input; the plan is drawn from {1-byte, small random, large random, fixed sizes around 128/512/4096, targeted cuts inside runes/CRLF/BOM/punctuation} with up to 2 consecutive empty reads and optional data+EOF. A case is non-trivial when the plan delivered >= 2 chunks or an empty read or data+EOF; distinct = distinct (world hash, plan signature).",
		Real: commonReal, Simulated: commonSim,
		Assume: []string{"(0,nil) reads are capped at 2 in a row: bufio legitimately reports io.ErrNoProgress after 100", "edi.ReaderBufSize is drawn per world and held equal across compared runs"},
	})
}

var jsonNearLine = regexp.MustCompile(`before/near line \d+`)

// planStats folds reader statistics into the run counters.
func planStats(c *Ctx, w *world.World, p simio.Plan, st simio.ReaderStats) {
	c.Events += int64(st.Reads)
	c.Count("reader.reads", int64(st.Reads))
	c.Count("reader.emptyReads", int64(st.EmptyReads))
	if st.EOFWithData {
		c.Count("reader.eofWithData", 1)
	}
	c.Count("plan.mode."+strings.SplitN(p.Mode, "(", 2)[0], 1)
}

// cutProbes records which risky boundaries the plan actually produced.
func cutProbes(c *Ctx, data []byte, p simio.Plan) {
	for _, cut := range p.Cuts {
		if cut <= 0 || cut >= len(data) {
			continue
		}
		b := data[cut]
		if b >= 0x80 && b < 0xC0 {
			c.Hit("cut.inside-rune")
		}
		if b == '\n' && data[cut-1] == '\r' {
			c.Hit("cut.between-CR-LF")
		}
		if cut < 3 && len(data) >= 3 && data[0] == 0xEF && data[1] == 0xBB {
			c.Hit("cut.inside-BOM")
		}
		if data[cut-1] == '?' || data[cut-1] == '\\' {
			c.Hit("cut.after-escape-char")
		}
		if data[cut-1] == '"' || b == '"' {
			c.Hit("cut.at-quote")
		}
	}
}

func inputProbes(c *Ctx, w *world.World) {
	maxLine, cur := 0, 0
	for _, b := range w.Input {
		if b == '\n' {
			if cur > maxLine {
				maxLine = cur
			}
			cur = 0
		} else {
			cur++
		}
	}
	if cur > maxLine {
		maxLine = cur
	}
	if maxLine > 4096 {
		c.Hit("input.line-longer-than-4096")
	}
	if len(w.Input) > 4096 {
		c.Hit("input.longer-than-4096")
	}
	if w.Tag("encoding") != "" {
		c.Hit("input.single-byte-encoding")
	}
	if w.Tag("bom") != "" {
		c.Hit("input.bom")
	}
	if w.Tag("edi.long-seg") != "" {
		c.Hit("input.edi-segment-longer-than-128")
	}
}

// padLastLine removes the line terminator of the input's last line and pads that line to exactly
// n bytes: a line that fills the line reader's buffer to the last byte, with the end of the input
// (delivered with the last bytes or in a Read of its own) instead of a terminator behind it.
func padLastLine(c *Ctx, w *world.World, n int) {
	in := bytes.TrimRight(w.Input, "\r\n")
	st := bytes.LastIndexByte(in, '\n') + 1
	last := in[st:]
	if len(last) == 0 || len(last) >= n {
		return
	}
	for _, b := range last {
		if b >= 0x80 {
			return // the charset decoder would change the line's length
		}
	}
	if st == 0 && bytes.HasPrefix(in, bom) {
		n += len(bom)
	}
	w.Input = append(append([]byte{}, in...), bytes.Repeat([]byte{'z'}, n-len(last))...)
	if k := len(w.Recs); k > 0 {
		w.Recs[k-1].End = len(w.Input)
	}
	w.SetTag("last-line-fills-buffer", "1")
	w.Name += fmt.Sprintf("+last-line-%d-bytes-unterminated", n)
	c.Hit("input.unterminated-last-line-of-exactly-k-times-4096-bytes")
}

func runC09(c *Ctx) []Violation {
	w := pickWorld(c, worldOpts{CorpusWeight: 1, GenWeight: 3, Encodings: true})
	switch w.Format {
	case "csv", "csv2", "fixed-length", "fixedlength2", "jsonlog":
		if c.T.Chance("c09.last-line-fills-buffer", 1, 6) {
			padLastLine(c, w, 4096*(1+c.T.Intn("c09.last-line-fills-buffer.k", 2)))
		}
	}
	env := baseEnv(c)
	c.Note("world %s (format %s, schema %d bytes, input %d bytes); env %s", w.Name, w.Format, len(w.Schema), len(w.Input), env)
	inputProbes(c, w)

	env.Apply()
	rd := simio.NewReader(w.Input, simio.Whole(len(w.Input)))
	base := run.Drive(w, rd, run.Opts{})
	c.Events += int64(len(base.Entries)) + int64(rd.Stats.Reads)
	bk := base.Keys()
	c.Ev("base", bk)
	c.Count("reads.api", int64(len(base.Entries)))
	for _, e := range base.Entries {
		c.Count("result."+e.Class, 1)
	}
	var out []Violation
	if base.HitReadLimit {
		// not C09's subject (C03/C16 own termination); comparing truncated transcripts is still sound
		c.Count("baseline.hit-read-limit", 1)
	}

	k := 3
	if c.Tier == "thorough" {
		k = 6
	}
	for i := 0; i < k; i++ {
		plan := simio.DrawPlan(c.T, w.Input)
		env.Apply()
		rd := simio.NewReader(w.Input, plan)
		got := run.Drive(w, rd, run.Opts{})
		planStats(c, w, plan, rd.Stats)
		cutProbes(c, w.Input, plan)
		c.Events += int64(len(got.Entries))
		gk := got.Keys()
		c.Ev("plan", i, plan.Sig(), gk)
		c.SigMix(plan.Sig())
		if len(plan.Cuts) >= 2 || rd.Stats.EmptyReads > 0 || rd.Stats.EOFWithData {
			c.Nontrivial = true
		}
		d := run.FirstDiff(bk, gk)
		if d < 0 {
			continue
		}
		v := viol("C09.transcript", fmt.Sprintf("%s: result #%d differs between one-read delivery and %s", w.Name, d+1, plan.Mode),
			"world: "+w.Name,
			"delivery plan: "+plan.String(),
			"baseline (whole input in one Read): "+run.ShowKey(bk, d),
			"under the plan:                     "+run.ShowKey(gk, d))
		// known finding F5: JSON error text carries a line number that counts buffered newlines
		if w.Format == "json" && c.FindingOpen("json-error-line-depends-on-readahead") && equalModulo(bk, gk, jsonNearLine) {
			v.Finding = "json-error-line-depends-on-readahead"
			v.What = "json: 'before/near line N' in per-record error text depends on decoder read-ahead"
		}
		c.Note("DIFF at result #%d under %s", d+1, plan.String())
		out = append(out, v)
		break
	}
	if len(out) == 0 && c.T.Chance("c09.schema-delivery", 1, 4) {
		// the schema, too, arrives through an io.Reader: the same schema bytes delivered under a
		// drawn plan must give the same Schema (judged by the transcript it produces)
		splan := simio.DrawPlan(c.T, w.Schema)
		env.Apply()
		srd := simio.NewReader(w.Schema, splan)
		rd := simio.NewReader(w.Input, simio.Whole(len(w.Input)))
		got := run.Drive(w, rd, run.Opts{SchemaRd: srd})
		c.Count("schema.delivered-under-plan", 1)
		c.Count("schema.reads", int64(srd.Stats.Reads))
		c.Events += int64(len(got.Entries) + srd.Stats.Reads)
		gk := got.Keys()
		c.Ev("schema-plan", splan.Sig(), gk)
		if d := run.FirstDiff(bk, gk); d >= 0 {
			out = append(out, viol("C09.schema-delivery", fmt.Sprintf("%s: result #%d differs when the schema reader delivers the schema bytes as %s", w.Name, d+1, splan.Mode),
				"world: "+w.Name,
				"schema delivery plan: "+splan.String(),
				"baseline (schema in one Read): "+run.ShowKey(bk, d),
				"under the plan:                "+run.ShowKey(gk, d)))
		}
	}
	if !c.Race {
		// pool behaviour is part of the deterministic execution (plain build only: race builds drop pooled items at random)
		c.Ev("node-id-counter", idr.VerifNodeIDCounter())
	}
	c.Sample = map[string]interface{}{"world": w.Name, "format": w.Format, "input_bytes": len(w.Input), "results": len(base.Entries), "plans": k}
	return out
}

func equalModulo(a, b []string, re *regexp.Regexp) bool {
	if len(a) != len(b) {
		return false
	}
	for i := range a {
		if a[i] == b[i] {
			continue
		}
		if re.ReplaceAllString(a[i], "") != re.ReplaceAllString(b[i], "") {
			return false
		}
	}
	return true
}

// auditViolations turns structural audit findings of delivered trees (C12 b) into violations.
func auditViolations(c *Ctx, tr *run.Transcript, where string) []Violation {
	for i, e := range tr.Entries {
		if e.Audit != "" {
			return []Violation{viol("C12.reader-tree", "tree handed out by a reader is structurally unsound: "+e.Audit,
				fmt.Sprintf("record #%d, %s", i+1, where), e.Audit)}
		}
	}
	return nil
}
