// Package props holds one simulated-run function per claimed property.
package props

import (
	"os"
	"fmt"
	"hash/fnv"
	"sort"
	"strings"

	"verif/sim/tape"
)

// Violation is one failed oracle clause.
type Violation struct {
	Clause  string   `json:"clause"`  // stable clause id, e.g. "C16.endless"
	Detail  []string `json:"detail"`  // expected vs. observed, human readable
	Finding string   `json:"finding"` // slug of the open known finding this matches ("" = new)
	What    string   `json:"what"`    // one line: what fails
}

// Ctx is handed to a property's run function.
type Ctx struct {
	T    *tape.Tape
	Prop string
	Tier string
	Seed uint64
	Run  int
	Race bool // race-detector build

	Stats  map[string]int64 // fired-counts, reach probes
	Notes  []string         // narrative of the run (for replay files)
	Events int64            // logical events (reader calls + API calls + yields)

	sig        uint64
	Nontrivial bool
	evh        uint64
	Sample     map[string]interface{} // a descriptor of this run for the evidence file

	OpenFindings map[string]bool
}

func NewCtx(t *tape.Tape, prop, tier string, seed uint64, run int) *Ctx {
	return &Ctx{T: t, Prop: prop, Tier: tier, Seed: seed, Run: run, Stats: map[string]int64{},
		sig: 1469598103934665603, evh: 1469598103934665603, Sample: map[string]interface{}{}}
}

// Count bumps a counter.
func (c *Ctx) Count(name string, by int64) { c.Stats[name] += by }

// Hit marks a reach probe.
func (c *Ctx) Hit(name string) { c.Stats["probe."+name]++ }

// Note adds a line to the narrative.
func (c *Ctx) Note(format string, a ...interface{}) {
	if len(c.Notes) < 400 {
		c.Notes = append(c.Notes, fmt.Sprintf(format, a...))
	}
}

// Ev folds something observable into the event-log hash (determinism self-test).
// evDump (developer aid, VERIF_EVDUMP=<file>): the event log in clear, to find out what differs when the
// determinism self-test reports a mismatch.
var evDump = func() *os.File {
	if p := os.Getenv("VERIF_EVDUMP"); p != "" {
		f, _ := os.Create(p)
		return f
	}
	return nil
}()

func (c *Ctx) Ev(parts ...interface{}) {
	h := fnv.New64a()
	fmt.Fprint(h, parts...)
	if evDump != nil {
		fmt.Fprintln(evDump, parts...)
	}
	c.evh = (c.evh ^ h.Sum64()) * 1099511628211
}

// EvHash returns the event-log hash.
func (c *Ctx) EvHash() uint64 { return c.evh }

// SigMix folds a value into the run's case signature.
func (c *Ctx) SigMix(v uint64) { c.sig = (c.sig ^ v) * 1099511628211 }

func (c *Ctx) Sig() uint64 { return c.sig }

// FindingOpen reports whether the known finding with this slug is listed as open.
func (c *Ctx) FindingOpen(slug string) bool { return c.OpenFindings[slug] }

// PropFunc runs one simulated run and returns the violated clauses (nil = property held).
type PropFunc func(c *Ctx) []Violation

// Info describes a registered property check.
type Info struct {
	ID        string
	Fn        PropFunc
	NeedsRace bool   // also run in the race build
	RaceOnly  bool   // only meaningful in the race build
	Rule      string // how cases are generated and what makes one non-trivial
	Real      []string
	Simulated []string
	Stub      []string
	Assume    []string
}

var Registry = map[string]*Info{}

func register(i *Info) { Registry[i.ID] = i }

// IDs lists registered property ids.
func IDs() []string {
	var out []string
	for k := range Registry {
		out = append(out, k)
	}
	sort.Strings(out)
	return out
}

func viol(clause, what string, detail ...string) Violation {
	return Violation{Clause: clause, What: what, Detail: detail}
}

func indent(lines []string) string { return "    " + strings.Join(lines, "\n    ") }

var commonReal = []string{
	"all of /repo: omniparser (schema.go, transform.go), header, errs, transformctx, validation, customfuncs, idr, extensions/omniv21/** (seven format readers, hierarchy reader, transform, validation, javascript)",
	"third-party code as vendored by go.mod: goja, antchfx/xpath, go-corelib (ios, caches, strs), x/text, stdlib encoding/csv|json|xml, bufio",
}
var commonSim = []string{
	"the input io.Reader (chunking, empty reads, data+EOF, EIO, early EOF)",
	"stored bytes of schema/input (storage faults)",
	"uuid randomness (declaration hashes) via uuid.SetRand seeded from the tape",
	"node ID base and node/VM pool contents (GOMAXPROCS=1, GC off during a run, pools emptied at tape-chosen steps)",
}
