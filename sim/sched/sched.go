// Package sched is the seeded scheduler: tasks are real goroutines, exactly one of which runs
// at any time; which one proceeds at every yield point is drawn from the tape.
//
// The hand-off between goroutines uses one pipe per task and raw read/write system calls, and
// a task's status travels as the byte it writes. No Go channel, mutex or atomic is involved,
// so the race detector sees exactly the happens-before relation of the system under test:
// an unsynchronised conflict between two tasks is reported on a serialized, replayable
// schedule (a channel hand-off would order everything and hide it).
package sched

import (
	"fmt"
	"runtime/debug"
	"sync"
	"syscall"
	"unsafe"

	"verif/sim/tape"
)

func rawWrite(fd int, b byte) {
	buf := [1]byte{b}
	for {
		n, _, e := syscall.Syscall(syscall.SYS_WRITE, uintptr(fd), uintptr(unsafe.Pointer(&buf[0])), 1)
		if e == syscall.EINTR || e == syscall.EAGAIN {
			continue
		}
		if e != 0 || n != 1 {
			panic(fmt.Sprintf("sched: pipe write failed: %v", e))
		}
		return
	}
}

func rawRead(fd int) byte {
	var buf [1]byte
	for {
		n, _, e := syscall.Syscall(syscall.SYS_READ, uintptr(fd), uintptr(unsafe.Pointer(&buf[0])), 1)
		if e == syscall.EINTR || e == syscall.EAGAIN {
			continue
		}
		if e != 0 || n != 1 {
			panic(fmt.Sprintf("sched: pipe read failed: %v (n=%d)", e, n))
		}
		return buf[0]
	}
}

// Task is one simulated caller.
type Task struct {
	ID    int
	wake  [2]int
	sched *Sched
	// Panic holds the value of a panic that escaped the task function.
	Panic string
	Stack string
	// Yields counts the yield points this task passed.
	Yields int
}

// Yield parks the calling task and lets the scheduler pick who runs next. It must only be
// called from the task's own goroutine.
func (t *Task) Yield() {
	t.Yields++
	rawWrite(t.sched.ctl[1], 'y')
	rawRead(t.wake[0])
}

// Policy of the scheduler.
const (
	PolicyUniform = 0 // pick uniformly among runnable tasks at every yield
	PolicyBursty  = 1 // keep running the same task with probability 7/8
	PolicyRR      = 2 // round robin (no draws)
)

// Sched runs tasks under a tape-chosen interleaving.
type Sched struct {
	t      *tape.Tape
	ctl    [2]int
	tasks  []*Task
	Policy int
	// MaxDraws bounds the number of scheduling decisions drawn from the tape; afterwards the
	// lowest-numbered runnable task always continues.
	MaxDraws int
	// Trace is the sequence of task choices (for interleaving signatures).
	Trace    []uint8
	Switches int
	Steps    int
}

// New creates a scheduler drawing from t.
func New(t *tape.Tape) *Sched {
	return &Sched{t: t, MaxDraws: 4000}
}

// Run starts one goroutine per function and interleaves them until all have returned.
// fns[i] receives its Task (for Yield). Everything a task needs must have been drawn before.
func (s *Sched) Run(fns []func(*Task)) []*Task {
	if err := syscall.Pipe(s.ctl[:]); err != nil {
		panic("sched: pipe: " + err.Error())
	}
	defer syscall.Close(s.ctl[0])
	defer syscall.Close(s.ctl[1])
	var wg sync.WaitGroup
	s.tasks = nil
	for i := range fns {
		t := &Task{ID: i, sched: s}
		if err := syscall.Pipe(t.wake[:]); err != nil {
			panic("sched: pipe: " + err.Error())
		}
		s.tasks = append(s.tasks, t)
	}
	for i := range fns {
		wg.Add(1)
		t, fn := s.tasks[i], fns[i]
		go func() {
			rawRead(t.wake[0]) // park until first released
			func() {
				defer func() {
					if r := recover(); r != nil {
						t.Panic = fmt.Sprint(r)
						t.Stack = string(debug.Stack())
					}
				}()
				fn(t)
			}()
			wg.Done()
			rawWrite(s.ctl[1], 'd')
		}()
	}
	done := make([]bool, len(fns))
	live := len(fns)
	cur := -1
	draws := 0
	s.t.Begin("schedule")
	for live > 0 {
		var runnable []int
		for i, d := range done {
			if !d {
				runnable = append(runnable, i)
			}
		}
		next := runnable[0]
		if len(runnable) > 1 && draws < s.MaxDraws {
			switch s.Policy {
			case PolicyUniform:
				next = runnable[s.t.Intn("sched.pick", len(runnable))]
				draws++
			case PolicyBursty:
				stay := cur >= 0 && !done[cur] && s.t.Intn("sched.stay", 8) != 0
				draws++
				if stay {
					next = cur
				} else {
					next = runnable[s.t.Intn("sched.pick", len(runnable))]
					draws++
				}
			case PolicyRR:
				next = runnable[0]
				for _, r := range runnable {
					if r > cur {
						next = r
						break
					}
				}
			}
		}
		if next != cur && cur >= 0 {
			s.Switches++
		}
		cur = next
		s.Steps++
		if len(s.Trace) < 1<<16 {
			s.Trace = append(s.Trace, uint8(next))
		}
		rawWrite(s.tasks[next].wake[1], 'g')
		if st := rawRead(s.ctl[0]); st == 'd' {
			done[next] = true
			live--
		}
	}
	s.t.End()
	wg.Wait()
	for _, t := range s.tasks {
		syscall.Close(t.wake[0])
		syscall.Close(t.wake[1])
	}
	return s.tasks
}

// TraceSig hashes the task-choice sequence.
func (s *Sched) TraceSig() uint64 {
	h := uint64(1469598103934665603)
	for _, b := range s.Trace {
		h = (h ^ uint64(b)) * 1099511628211
	}
	return h
}
