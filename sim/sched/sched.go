// Package sched is the seeded scheduler: tasks are real goroutines, exactly one of which runs
// at any time; which one proceeds at every yield point is drawn from the tape.
//
// The hand-off between goroutines uses one pipe per task and raw read/write system calls, and
// a task's status travels as the byte it writes. No Go channel, mutex or atomic is involved,
// so the race detector sees exactly the happens-before relation of the system under test:
// an unsynchronised conflict between two tasks is reported on a serialized, replayable
// schedule (a channel hand-off would order everything and hide it).
package sched

import (
	"fmt"
	"runtime/debug"
	"sync"
	"sync/atomic"
	"syscall"
	"unsafe"

	"verif/sim/tape"
)

func rawWrite(fd int, b byte) {
	buf := [1]byte{b}
	for {
		n, _, e := syscall.Syscall(syscall.SYS_WRITE, uintptr(fd), uintptr(unsafe.Pointer(&buf[0])), 1)
		if e == syscall.EINTR || e == syscall.EAGAIN {
			continue
		}
		if e != 0 || n != 1 {
			panic(fmt.Sprintf("sched: pipe write failed: %v", e))
		}
		return
	}
}

const blockedTaskTimeoutMs = 90000

// waitReadable polls fd (raw system call, no Go-level synchronisation) until it is readable or
// the timeout expires.
func waitReadable(fd int, timeoutMs int) bool {
	type pollfd struct {
		fd      int32
		events  int16
		revents int16
	}
	p := pollfd{fd: int32(fd), events: 1}
	for {
		n, _, e := syscall.Syscall(syscall.SYS_POLL, uintptr(unsafe.Pointer(&p)), 1, uintptr(timeoutMs))
		if e == syscall.EINTR {
			continue
		}
		return e == 0 && n > 0
	}
}

func rawRead(fd int) byte {
	var buf [1]byte
	for {
		n, _, e := syscall.Syscall(syscall.SYS_READ, uintptr(fd), uintptr(unsafe.Pointer(&buf[0])), 1)
		if e == syscall.EINTR || e == syscall.EAGAIN {
			continue
		}
		if e != 0 || n != 1 {
			panic(fmt.Sprintf("sched: pipe read failed: %v (n=%d)", e, n))
		}
		return buf[0]
	}
}

func safeSprint(r interface{}) (s string) {
	defer func() {
		if recover() != nil {
			s = fmt.Sprintf("panic value of type %T whose description panics as well", r)
		}
	}()
	return fmt.Sprint(r)
}

// Task is one simulated caller.
type Task struct {
	ID    int
	wake  [2]int
	sched *Sched
	// Panic holds the value of a panic that escaped the task function.
	Panic string
	Stack string
	// Yields counts the yield points this task passed.
	Yields int
	// soft yield points (instrumented builds only): every softStride-th point at phase softPhase is
	// taken, up to softBudget of them.
	softStride, softPhase, softBudget int
	// softSharedOnly: only the yield points of files that touch shared state count
	softSharedOnly bool
	softCount, SoftTaken              int
	// lockDepth > 0 while the task is inside a critical section of the instrumented library: it is
	// then never parked (neither at soft nor at hard yield points), because the task released next
	// could block inside the Go runtime on that lock and the simulation would deadlock.
	lockDepth int
}

// NoteLocked / NoteUnlocked are the hooks behind verifyield.Locked() / Unlocked().
func NoteLocked() {
	if t := (*Task)(atomic.LoadPointer(&curTask)); t != nil {
		t.lockDepth++
	}
}

func NoteUnlocked() {
	if t := (*Task)(atomic.LoadPointer(&curTask)); t != nil && t.lockDepth > 0 {
		t.lockDepth--
	}
}

// SoftCfg selects which of a task's soft yield points (statement boundaries of the instrumented
// library, see cmd/instr) become scheduler hand-offs. It is drawn before the tasks start.
type SoftCfg struct {
	Stride, Phase, Budget int
	// SharedOnly spends the hand-offs in files that touch state shared between goroutines
	// (sync., atomic., caches.): statement-level interleavings of exactly the code that can interfere
	SharedOnly bool
	// Meet (first element only) makes two tasks meet at one yield point of such a file and go on
	// from there in step; no other soft yield points are taken then.
	Meet *MeetCfg
}

// MeetCfg: the owner runs until its Triggers[i]-th shared-state yield point, which becomes the meeting
// point of round i, and is parked there. As soon as another task reaches the same point, the two go
// on from there alone for Spans[i] yield points, alternating strictly (Strict[i]) or chosen
// uniformly: two callers inside the same piece of shared-state code at the same time, statement by
// statement - the schedules under which check-then-act sequences break. If nobody comes, the owner
// goes on when no other task can run.
type MeetCfg struct {
	Owner    int
	Triggers []int
	Spans    []int
	Strict   []bool
	// Sites[i] != 0: the meeting point of round i is the owner's first arrival at that site instead
	// of its Triggers[i]-th shared-state yield point (the caller knows a site worth stopping at, e.g.
	// one that only the first use of a shared value passes).
	Sites []int
}

// meetState is the run-time side of MeetCfg (touched by the one task that runs, or by the scheduler
// while all tasks are parked).
type meetState struct {
	cfg     *MeetCfg
	round   int
	count   int
	site    int
	waiting bool
	partner int
	active  int
	strict  bool
	Met     int
}

// DrawSoft draws the soft-yield configuration of n tasks.
func DrawSoft(t *tape.Tape, n int) []SoftCfg {
	t.Begin("soft")
	defer t.End()
	out := make([]SoftCfg, n)
	strides := []int{1, 2, 3, 5, 8, 13, 30, 100, 0}
	for i := range out {
		st := strides[t.Intn("soft.stride", len(strides))]
		c := SoftCfg{Stride: st, Budget: 200 + t.Intn("soft.budget", 2800)}
		if st > 0 {
			c.Phase = t.Intn("soft.phase", st)
		}
		out[i] = c
	}
	switch t.Weighted("soft.mode", 3, 2, 3) {
	case 1:
		// all tasks take their hand-offs in the files that touch shared state only
		for i := range out {
			out[i].SharedOnly = true
		}
	case 2:
		if n < 2 {
			break
		}
		m := &MeetCfg{Owner: t.Intn("soft.meet.owner", n)}
		for r, rounds := 0, 1+t.Intn("soft.meet.rounds", 8); r < rounds; r++ {
			m.Triggers = append(m.Triggers, 1+t.Intn("soft.meet.trigger", []int{30, 300, 3000}[t.Intn("soft.meet.trigger-scale", 3)]))
			m.Spans = append(m.Spans, 8+t.Intn("soft.meet.span", 120))
			m.Strict = append(m.Strict, t.Bool("soft.meet.strict"))
		}
		for i := range out {
			out[i].Stride = 0
		}
		out[0].Meet = m
	}
	return out
}

// curTask is the task currently released by a scheduler (nil outside Run). It is written by the
// scheduler goroutine and read by the released task through atomics: that orders the scheduler
// before the task, never one task before another, so the race detector's view of the system
// under test is unchanged.
var curTask unsafe.Pointer

// StatementProbe, when set (instrumented builds, single-goroutine runs only), is called between any
// two statements of the instrumented library: an invariant that is looked at with statement
// granularity. The probe may call into the library itself (it is not re-entered).
var StatementProbe func()
var inStatementProbe bool

// SoftYield is the hook behind verifyield.Y(): a hand-off point between two statements of the
// instrumented library. Outside a scheduled section it does nothing.
// SiteDump (developer aid) sees every shared-state yield point a task passes.
var SiteDump func(task, site int)

func SoftYield() { softYield(false) }

// SoftYieldShared is the hook behind verifyield.YS().
// SiteRecorder, when set, sees every shared-state yield point that is passed, inside or outside a
// scheduled section (the harness records the sites of a serial run with it).
var SiteRecorder func(site int)

func SoftYieldShared(site int) {
	if SiteRecorder != nil {
		SiteRecorder(site)
	}
	if SiteDump != nil {
		if t := (*Task)(atomic.LoadPointer(&curTask)); t != nil {
			SiteDump(t.ID, site)
		}
	}
	if t := (*Task)(atomic.LoadPointer(&curTask)); t != nil && t.sched.meet.cfg != nil {
		t.sched.meetYield(t, site)
	}
	softYield(true)
}

func (s *Sched) meetYield(t *Task, site int) {
	m := &s.meet
	if t.lockDepth > 0 {
		return
	}
	switch {
	case m.active > 0:
		if t.ID != m.cfg.Owner && t.ID != m.partner {
			return
		}
		m.active--
		if m.active == 0 {
			m.nextRound()
		}
		t.Yield()
	case m.waiting:
		if t.ID != m.cfg.Owner && site == m.site {
			m.waiting, m.partner = false, t.ID
			m.active, m.strict = m.cfg.Spans[m.round], m.cfg.Strict[m.round]
			m.Met++
			t.Yield()
		}
	case t.ID == m.cfg.Owner && m.round < len(m.cfg.Triggers):
		if r := m.round; r < len(m.cfg.Sites) && m.cfg.Sites[r] != 0 {
			if site == m.cfg.Sites[r] {
				m.site, m.waiting = site, true
				t.Yield()
			}
			return
		}
		m.count++
		if m.count >= m.cfg.Triggers[m.round] {
			m.site, m.waiting = site, true
			t.Yield()
		}
	}
}

func (m *meetState) nextRound() {
	m.round++
	m.count, m.site, m.waiting, m.active = 0, 0, false, 0
}

func softYield(shared bool) {
	if p := StatementProbe; p != nil && !inStatementProbe {
		inStatementProbe = true
		p()
		inStatementProbe = false
	}
	t := (*Task)(atomic.LoadPointer(&curTask))
	if t == nil {
		return
	}
	if t.softSharedOnly && !shared {
		return
	}
	t.softCount++
	if t.softStride <= 0 || t.SoftTaken >= t.softBudget || t.softCount%t.softStride != t.softPhase {
		return
	}
	t.SoftTaken++
	t.Yield()
}

// Yield parks the calling task and lets the scheduler pick who runs next. It must only be
// called from the task's own goroutine.
func (t *Task) Yield() {
	if t.lockDepth > 0 {
		return
	}
	t.Yields++
	rawWrite(t.sched.ctl[1], 'y')
	rawRead(t.wake[0])
}

// Policy of the scheduler.
const (
	PolicyUniform = 0 // pick uniformly among runnable tasks at every yield
	PolicyBursty  = 1 // keep running the same task with probability 7/8
	PolicyRR      = 2 // round robin (no draws)
)

// Sched runs tasks under a tape-chosen interleaving.
type Sched struct {
	t      *tape.Tape
	ctl    [2]int
	tasks  []*Task
	Policy int
	// MaxDraws bounds the number of scheduling decisions drawn from the tape; afterwards the
	// lowest-numbered runnable task always continues.
	MaxDraws int
	// Soft configures the soft yield points per task (instrumented builds).
	Soft []SoftCfg
	// Trace is the sequence of task choices (for interleaving signatures).
	Trace    []uint8
	Switches int
	Steps    int
	meet     meetState
}

// Met is the number of times two tasks met at one yield point (MeetCfg).
func (s *Sched) Met() int { return s.meet.Met }

// New creates a scheduler drawing from t.
func New(t *tape.Tape) *Sched {
	return &Sched{t: t, MaxDraws: 4000}
}

// Run starts one goroutine per function and interleaves them until all have returned.
// fns[i] receives its Task (for Yield). Everything a task needs must have been drawn before.
func (s *Sched) Run(fns []func(*Task)) []*Task {
	if err := syscall.Pipe(s.ctl[:]); err != nil {
		panic("sched: pipe: " + err.Error())
	}
	defer syscall.Close(s.ctl[0])
	defer syscall.Close(s.ctl[1])
	var wg sync.WaitGroup
	s.tasks = nil
	s.meet = meetState{}
	if len(s.Soft) > 0 && s.Soft[0].Meet != nil && s.Soft[0].Meet.Owner < len(fns) {
		s.meet.cfg = s.Soft[0].Meet
	}
	for i := range fns {
		t := &Task{ID: i, sched: s}
		if i < len(s.Soft) {
			t.softStride, t.softPhase, t.softBudget, t.softSharedOnly = s.Soft[i].Stride, s.Soft[i].Phase, s.Soft[i].Budget, s.Soft[i].SharedOnly
		}
		if err := syscall.Pipe(t.wake[:]); err != nil {
			panic("sched: pipe: " + err.Error())
		}
		s.tasks = append(s.tasks, t)
	}
	for i := range fns {
		wg.Add(1)
		t, fn := s.tasks[i], fns[i]
		go func() {
			rawRead(t.wake[0]) // park until first released
			func() {
				defer func() {
					if r := recover(); r != nil {
						t.Panic = safeSprint(r)
						t.Stack = string(debug.Stack())
					}
				}()
				fn(t)
			}()
			wg.Done()
			rawWrite(s.ctl[1], 'd')
		}()
	}
	done := make([]bool, len(fns))
	live := len(fns)
	cur := -1
	draws := 0
	s.t.Begin("schedule")
	for live > 0 {
		var runnable []int
		for i, d := range done {
			if !d {
				runnable = append(runnable, i)
			}
		}
		if m := &s.meet; m.cfg != nil {
			if m.active > 0 && (done[m.cfg.Owner] || done[m.partner]) {
				m.nextRound()
			}
			if m.waiting {
				// the owner waits at the meeting point while anybody else can run
				if len(runnable) > 1 && !done[m.cfg.Owner] {
					var others []int
					for _, r := range runnable {
						if r != m.cfg.Owner {
							others = append(others, r)
						}
					}
					runnable = others
				} else {
					m.nextRound()
				}
			}
		}
		next := runnable[0]
		if m := &s.meet; m.cfg != nil && m.active > 0 {
			// the two that met go on alone, in step
			a, b := m.cfg.Owner, m.partner
			switch {
			case m.strict && cur == a:
				next = b
			case m.strict:
				next = a
			case s.t.Intn("sched.meet.pick", 2) == 0:
				next = a
			default:
				next = b
			}
		} else if len(runnable) > 1 && draws < s.MaxDraws {
			switch s.Policy {
			case PolicyUniform:
				next = runnable[s.t.Intn("sched.pick", len(runnable))]
				draws++
			case PolicyBursty:
				stay := cur >= 0 && !done[cur] && s.t.Intn("sched.stay", 8) != 0
				draws++
				if stay {
					next = cur
				} else {
					next = runnable[s.t.Intn("sched.pick", len(runnable))]
					draws++
				}
			case PolicyRR:
				next = runnable[0]
				for _, r := range runnable {
					if r > cur {
						next = r
						break
					}
				}
			}
		}
		if next != cur && cur >= 0 {
			s.Switches++
		}
		cur = next
		s.Steps++
		if len(s.Trace) < 1<<16 {
			s.Trace = append(s.Trace, uint8(next))
		}
		atomic.StorePointer(&curTask, unsafe.Pointer(s.tasks[next]))
		rawWrite(s.tasks[next].wake[1], 'g')
		if !waitReadable(s.ctl[0], blockedTaskTimeoutMs) {
			panic(fmt.Sprintf("sched: task %d did not reach a yield point within %d s: it is blocked on a synchronisation primitive (channel, sync.Cond, a lock taken in a way the instrumentation does not see) while another task is parked; the simulator does not model that", next, blockedTaskTimeoutMs/1000))
		}
		if st := rawRead(s.ctl[0]); st == 'd' {
			done[next] = true
			live--
		}
	}
	atomic.StorePointer(&curTask, nil)
	s.t.End()
	wg.Wait()
	for _, t := range s.tasks {
		syscall.Close(t.wake[0])
		syscall.Close(t.wake[1])
	}
	return s.tasks
}

// TraceSig hashes the task-choice sequence.
func (s *Sched) TraceSig() uint64 {
	h := uint64(1469598103934665603)
	for _, b := range s.Trace {
		h = (h ^ uint64(b)) * 1099511628211
	}
	return h
}
