//go:build verifyield
// +build verifyield

package sched

import "github.com/jf-tech/omniparser/verifyield"

// Instrumented is true in builds against the instrumented scratch copy of the repository.
const Instrumented = true

func init() {
	verifyield.Hook = SoftYield
	verifyield.HookS = SoftYieldShared
	verifyield.LockHook = NoteLocked
	verifyield.UnlockHook = NoteUnlocked
}
