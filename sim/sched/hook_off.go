//go:build !verifyield
// +build !verifyield

package sched

// Instrumented is true in builds against the instrumented scratch copy of the repository.
const Instrumented = false
