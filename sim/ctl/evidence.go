package ctl

import (
	"encoding/json"
	"io/ioutil"
	"os"
	"path/filepath"
	"sort"
	"strings"

	"verif/sim/props"
)

func writeEvidence(a OrchArgs, info *props.Info, agg *Agg, violations int, wall float64) error {
	dir := filepath.Join(Home(), "evidence")
	if r := os.Getenv("VERIF_REPO"); r != "" && r != "/repo" && os.Getenv("VERIF_EVIDENCE_ANYWAY") == "" {
		// a run against another tree (a scratch copy with a change applied, a snapshot) says nothing
		// about /repo: its evidence goes next to the build output, not into the committed directory
		dir = filepath.Join(Home(), ".build", "evidence-of-other-trees")
	}
	if d := os.Getenv("VERIF_EVIDENCE_DIR"); d != "" {
		// (the developer tools that apply a change to /repo itself, run a check and revert say so)
		dir = d
	}
	if err := os.MkdirAll(dir, 0o755); err != nil {
		return err
	}
	faults := map[string]int64{}
	probes := map[string]int64{}
	other := map[string]int64{}
	keys := make([]string, 0, len(agg.Stats))
	for k := range agg.Stats {
		keys = append(keys, k)
	}
	sort.Strings(keys)
	for _, k := range keys {
		switch {
		case strings.HasPrefix(k, "fault."):
			faults[strings.TrimPrefix(k, "fault.")] = agg.Stats[k]
		case strings.HasPrefix(k, "probe."):
			probes[strings.TrimPrefix(k, "probe.")] = agg.Stats[k]
		default:
			other[k] = agg.Stats[k]
		}
	}
	samples := agg.Samples
	if len(samples) == 0 {
		samples = []interface{}{"(no run completed)"}
	}
	perHour := 0.0
	if wall > 0 {
		perHour = float64(agg.Runs) / wall * 3600
	}
	known := map[string]int{}
	for k, v := range agg.Known {
		known[k] = v
	}
	cov := map[string]interface{}{
		"evaluations":             agg.Runs,
		"distinct_nontrivial":     len(agg.Sigs),
		"rule":                    info.Rule,
		"samples":                 samples,
		"runs_per_hour":           int64(perHour),
		"seeds":                   agg.Seeds,
		"seeds_per_hour":          float64(len(agg.Seeds)) / wall * 3600,
		"race_build_runs":         agg.RaceRuns,
		"instrumented_build_runs": agg.InstrRuns,
		"simulated_time": map[string]interface{}{
			"logical_events": agg.Events,
			"note":           "the system under simulation reads no clock and has no timers, so there is no simulated clock; coverage in time is reported as logical events (reader calls + API calls + scheduler yields)",
		},
		"faults_fired":            faults,
		"reach_probes":            probes,
		"counters":                other,
		"distinct_states_measure": "distinct (world hash, delivery/schedule signature, fault signature) tuples among non-trivial runs",
		"components": map[string]interface{}{
			"real":      info.Real,
			"simulated": info.Simulated,
			"stub":      info.Stub,
		},
		"known_findings_matched": known,
		"worker_cpu_seconds":     agg.WorkerSeconds,
		"workers":                a.Workers,
	}
	ev := map[string]interface{}{
		"property_id": a.Prop,
		"tier":        a.Tier,
		"seed":        a.Seed,
		"level":       "exploration",
		"coverage":    cov,
		"assumptions": append([]string{"seeded search over schedules and faults: a clean batch is evidence, not proof"}, info.Assume...),
		"wall_s":      wall,
		"violations":  violations,
	}
	b, err := json.MarshalIndent(ev, "", " ")
	if err != nil {
		return err
	}
	return ioutil.WriteFile(filepath.Join(dir, a.Prop+".json"), b, 0o644)
}
