// Package ctl is the control plane: it executes runs, shrinks and replays failures, spreads
// runs over worker processes, applies the known-findings file and writes evidence.
package ctl

import (
	"bufio"
	"encoding/json"
	"fmt"
	"io/ioutil"
	"os"
	"path/filepath"
	"runtime/debug"
	"strings"

	"verif/sim/props"
	"verif/sim/tape"
)

// Home is /verif (where KNOWN_FINDINGS.txt, evidence/ and replays/ live).
func Home() string {
	if h := os.Getenv("VERIF_HOME"); h != "" {
		return h
	}
	return "/verif"
}

// IsRaceBuild is set by the race-tagged file.
var IsRaceBuild = false

// LoadOpenFindings parses KNOWN_FINDINGS.txt: lines "open: property=<id> finding=<slug> <text>"
// and "fixed: property=<id> <commit> <text>". Only open lines activate a matcher.
func LoadOpenFindings(prop string) (map[string]bool, map[string]string, error) {
	open := map[string]bool{}
	text := map[string]string{}
	f, err := os.Open(filepath.Join(Home(), "KNOWN_FINDINGS.txt"))
	if err != nil {
		if os.IsNotExist(err) {
			return open, text, nil
		}
		return nil, nil, err
	}
	defer f.Close()
	sc := bufio.NewScanner(f)
	sc.Buffer(make([]byte, 1<<20), 1<<20)
	for sc.Scan() {
		line := strings.TrimSpace(sc.Text())
		if !strings.HasPrefix(line, "open:") {
			continue
		}
		fields := strings.Fields(line[len("open:"):])
		var p, slug string
		rest := []string{}
		for _, fl := range fields {
			switch {
			case strings.HasPrefix(fl, "property=") && p == "":
				p = fl[len("property="):]
			case strings.HasPrefix(fl, "finding=") && slug == "":
				slug = fl[len("finding="):]
			default:
				rest = append(rest, fl)
			}
		}
		if p == prop && slug != "" {
			open[slug] = true
			text[slug] = strings.Join(rest, " ")
		}
	}
	return open, text, sc.Err()
}

// RunResult is the outcome of one simulated run.
type RunResult struct {
	Ctx        *props.Ctx
	Violations []props.Violation
	Values     []uint64
	Spans      []tape.Span
	Draws      []tape.Draw
	HarnessErr string // the harness itself failed (never a violation)
}

// Execute performs run number `run` of a property: in generation mode when vals is nil,
// otherwise replaying vals.
func Execute(prop, tier string, seed uint64, run int, vals []uint64, open map[string]bool, sink func(tape.Draw)) (res RunResult) {
	info := props.Registry[prop]
	if info == nil {
		res.HarnessErr = "unknown property " + prop
		return
	}
	var t *tape.Tape
	if vals == nil {
		t = tape.NewGen(tape.Mix(seed, prop, run))
	} else {
		t = tape.NewReplay(vals)
	}
	if sink != nil {
		t.SetSink(sink)
	}
	c := props.NewCtx(t, prop, tier, seed, run)
	c.OpenFindings = open
	c.Race = IsRaceBuild
	res.Ctx = c
	func() {
		defer func() {
			if r := recover(); r != nil {
				// panics of the system under test are caught where they are part of an oracle;
				// anything arriving here is a harness defect.
				res.HarnessErr = fmt.Sprintf("harness panic: %v\n%s", r, debug.Stack())
			}
		}()
		res.Violations = info.Fn(c)
	}()
	debug.SetGCPercent(100)
	res.Values = t.Values()
	res.Spans = t.Spans()
	res.Draws = t.Draws()
	return res
}

// NewViolations filters out violations matched by an open known finding.
func NewViolations(vs []props.Violation) (fresh, known []props.Violation) {
	for _, v := range vs {
		if v.Finding != "" {
			known = append(known, v)
		} else {
			fresh = append(fresh, v)
		}
	}
	return
}

// ReplayFile is the on-disk description of a failing run.
type ReplayFile struct {
	Property  string      `json:"property"`
	Clause    string      `json:"clause"`
	What      string      `json:"what"`
	Tier      string      `json:"tier"`
	Seed      uint64      `json:"seed"`
	Run       int         `json:"run"`
	Race      bool        `json:"race_build"`
	Instr     bool        `json:"instrumented"` // built against the instrumented scratch copy (yield point before every statement)
	Mode      string      `json:"mode"`         // "tape": replay Tape; "crash": the process dies (race report / fatal error) while replaying Tape
	Tape      []uint64    `json:"tape"`
	Labels    []string    `json:"labels,omitempty"`
	Detail    []string    `json:"detail"`
	Narrative []string    `json:"narrative"`
	Shrink    interface{} `json:"shrink,omitempty"`
	ExitCode  int         `json:"exit_code,omitempty"`
	Output    []string    `json:"output,omitempty"`
	// History names the runs the worker process had executed before this one (same seed and tier:
	// runs Start, Start+Stride, ... below Run). A run starts by putting every piece of process-wide
	// state the harness knows of into a canonical condition, so ordinarily they do not matter. When
	// NeedsHistory is set they do: the violation (of C15, whose subject is what earlier transforms
	// of the process leave behind) showed only after those runs, and the replay executes them first,
	// in a fresh process, exactly as the worker did.
	History      *HistorySpec `json:"process_history,omitempty"`
	NeedsHistory bool         `json:"needs_process_history,omitempty"`
}

// HistorySpec: the run indices Start, Start+Stride, ... < the replay file's Run.
type HistorySpec struct {
	Start  int `json:"start"`
	Stride int `json:"stride"`
}

func WriteReplay(rf *ReplayFile) (string, error) {
	dir := filepath.Join(Home(), "replays")
	if err := os.MkdirAll(dir, 0o755); err != nil {
		return "", err
	}
	suffix := ""
	if rf.Instr {
		suffix += "-instr"
	}
	if rf.Race {
		suffix += "-race"
	}
	p := filepath.Join(dir, fmt.Sprintf("%s-%d-%d%s.json", rf.Property, rf.Seed, rf.Run, suffix))
	b, _ := json.MarshalIndent(rf, "", " ")
	return p, ioutil.WriteFile(p, b, 0o644)
}

func ReadReplay(path string) (*ReplayFile, error) {
	b, err := ioutil.ReadFile(path)
	if err != nil {
		return nil, err
	}
	var rf ReplayFile
	if err := json.Unmarshal(b, &rf); err != nil {
		return nil, err
	}
	return &rf, nil
}

func labelsOf(ds []tape.Draw) []string {
	out := make([]string, len(ds))
	for i, d := range ds {
		out[i] = fmt.Sprintf("%s<%d=%d", d.L, d.N, d.V)
	}
	return out
}
