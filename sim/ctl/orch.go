package ctl

import (
	"bufio"
	"bytes"
	"encoding/json"
	"fmt"
	"io/ioutil"
	"os"
	"os/exec"
	"path/filepath"
	"sort"
	"strconv"
	"strings"
	"sync"
	"syscall"
	"time"

	"verif/sim/props"
	"verif/sim/tape"
)

// OrchArgs configures an orchestrated check.
type OrchArgs struct {
	Prop         string
	Tier         string
	Seed         uint64
	Budget       time.Duration // wall-clock budget for running simulations (all phases together)
	Workers      int
	Bin          string // plain build
	RaceBin      string // race build ("" if not built)
	YieldBin     string // instrumented build ("" if not built)
	YieldRaceBin string // instrumented race build
	HangLimit    time.Duration
	MaxRuns      int // per worker (0 = unlimited within budget)
}

type workerState struct {
	id       int
	race     bool
	instr    bool
	cmd      *exec.Cmd
	stderr   *bytes.Buffer
	seed     uint64
	inflight int
	lastBeat time.Time
	done     bool
	killed   bool // SIGQUIT sent by the watchdog
	mem      bool // ... because of its memory use
	exit     int
	summary  *Msg
	viols    []Msg
	harness  []Msg
}

type crashCase struct {
	seed  uint64
	run   int
	race  bool
	instr bool
	exit  int
	hang  bool
	text  string
}

// Agg is what the orchestrator accumulates for the evidence file.
type Agg struct {
	Runs          int
	RaceRuns      int
	InstrRuns     int
	Events        int64
	Stats         map[string]int64
	Sigs          map[uint64]bool
	Samples       []interface{}
	Known         map[string]int
	KnownWhat     map[string]string
	Seeds         []uint64
	WorkerSeconds float64
}

func exitCodeOf(err error) int {
	if err == nil {
		return 0
	}
	if ee, ok := err.(*exec.ExitError); ok {
		if ws, ok := ee.Sys().(syscall.WaitStatus); ok {
			if ws.Signaled() {
				return 128 + int(ws.Signal())
			}
			return ws.ExitStatus()
		}
	}
	return -1
}

func workerEnv(race bool, logPath string) []string {
	env := os.Environ()
	env = append(env, "GOMAXPROCS=1")
	if race {
		env = append(env, "GORACE=halt_on_error=1 exitcode=66 history_size=4")
	}
	return env
}

// Orchestrate runs a check and returns the process exit status (0, 1, 2).
func Orchestrate(a OrchArgs) int {
	t0 := time.Now()
	info := props.Registry[a.Prop]
	if info == nil {
		fmt.Fprintf(os.Stderr, "unknown property %s (known: %v)\n", a.Prop, props.IDs())
		return 2
	}
	_, knownText, err := LoadOpenFindings(a.Prop)
	if err != nil {
		fmt.Fprintln(os.Stderr, "known findings:", err)
		return 2
	}
	fmt.Printf("check %s tier=%s VERIF_SEED=%d workers=%d budget=%s\n", a.Prop, a.Tier, a.Seed, a.Workers, a.Budget)
	seeds := []uint64{a.Seed}
	if a.Tier == "thorough" {
		seeds = append(seeds, tape.Mix(a.Seed, "derived", 1)%1000000007, tape.Mix(a.Seed, "derived", 2)%1000000007)
	}
	agg := &Agg{Stats: map[string]int64{}, Sigs: map[uint64]bool{}, Known: map[string]int{}, KnownWhat: map[string]string{}, Seeds: seeds}
	var confirmed []string // VIOLATION lines
	trouble := []string{}
	perPhase := a.Budget / time.Duration(len(seeds))
	for _, seed := range seeds {
		viols, crashes, tr := runPhase(a, info, seed, perPhase, agg)
		trouble = append(trouble, tr...)
		for _, v := range viols {
			ok, out := confirmReplay(a, v.Path, strings.HasSuffix(v.Path, "-race.json"))
			if ok {
				confirmed = append(confirmed, fmt.Sprintf("VIOLATION property=%s replay=%s", a.Prop, v.Path))
				fmt.Printf("violation: clause=%s %s\n", v.Clause, v.What)
			} else {
				trouble = append(trouble, fmt.Sprintf("violation of %s (run %d, seed %d) did not reproduce in a fresh process (harness nondeterminism?): %s\n%s", v.Clause, v.Run, v.Seed, v.Path, out))
			}
		}
		for _, cr := range crashes {
			line, tr := handleCrash(a, info, cr)
			if line != "" {
				confirmed = append(confirmed, line)
			}
			if tr != "" {
				trouble = append(trouble, tr)
			}
		}
		if len(confirmed) > 0 {
			break
		}
	}
	// known findings
	slugs := make([]string, 0, len(agg.Known))
	for s := range agg.Known {
		slugs = append(slugs, s)
	}
	sort.Strings(slugs)
	for _, s := range slugs {
		what := knownText[s]
		if what == "" {
			what = agg.KnownWhat[s]
		}
		fmt.Printf("KNOWN-FINDING: property=%s finding=%s %s (matched %d runs)\n", a.Prop, s, what, agg.Known[s])
	}
	wall := time.Since(t0).Seconds()
	if err := writeEvidence(a, info, agg, len(confirmed), wall); err != nil {
		trouble = append(trouble, "evidence: "+err.Error())
	}
	fmt.Printf("%s %s: %d runs (%d in the race build, %d in the instrumented build), %d distinct non-trivial cases, %d logical events, %.1fs wall\n",
		a.Prop, a.Tier, agg.Runs, agg.RaceRuns, agg.InstrRuns, len(agg.Sigs), agg.Events, wall)
	for _, l := range confirmed {
		fmt.Println(l)
	}
	if len(confirmed) > 0 {
		return 1
	}
	if len(trouble) > 0 {
		for _, t := range trouble {
			fmt.Fprintln(os.Stderr, "HARNESS-TROUBLE:", t)
		}
		return 2
	}
	if agg.Runs == 0 {
		fmt.Fprintln(os.Stderr, "HARNESS-TROUBLE: no runs executed")
		return 2
	}
	fmt.Printf("OK property=%s held on everything explored\n", a.Prop)
	return 0
}

func runPhase(a OrchArgs, info *props.Info, seed uint64, budget time.Duration, agg *Agg) (viols []Msg, crashes []crashCase, trouble []string) {
	n := a.Workers
	raceWorkers := 0
	if a.RaceBin != "" && (info.NeedsRace || info.RaceOnly) {
		raceWorkers = n / 2
		if info.RaceOnly {
			raceWorkers = n
		}
	}
	// flavour of worker i: race for i < raceWorkers; among each half, every other worker uses the
	// instrumented build when it exists
	flavour := func(i int) (race, instr bool) {
		race = i < raceWorkers
		// every other non-race worker uses the instrumented build when it exists
		instr = !race && a.YieldBin != "" && info.NeedsRace && i%2 == 1
		return
	}
	type evt struct {
		w   *workerState
		msg *Msg
		eof bool
	}
	events := make(chan evt, 1024)
	var ws []*workerState
	var wg sync.WaitGroup
	maxRuns := a.MaxRuns
	if maxRuns <= 0 {
		maxRuns = 1 << 30
	}
	for i := 0; i < n; i++ {
		w := &workerState{id: i, seed: seed, inflight: -1, lastBeat: time.Now(), stderr: &bytes.Buffer{}}
		w.race, w.instr = flavour(i)
		bin := a.binFor(w.race, w.instr)
		w.cmd = exec.Command(bin, "worker", "-prop", a.Prop, "-tier", a.Tier, "-seed", fmt.Sprint(seed),
			"-start", fmt.Sprint(i), "-stride", fmt.Sprint(n), "-budget", fmt.Sprint(budget.Seconds()), "-maxruns", fmt.Sprint(maxRuns))
		w.cmd.Env = workerEnv(w.race, "")
		w.cmd.Stderr = w.stderr
		stdout, err := w.cmd.StdoutPipe()
		if err != nil {
			trouble = append(trouble, err.Error())
			continue
		}
		if err := w.cmd.Start(); err != nil {
			trouble = append(trouble, "start worker: "+err.Error())
			continue
		}
		ws = append(ws, w)
		wg.Add(1)
		go func(w *workerState) {
			defer wg.Done()
			sc := bufio.NewScanner(stdout)
			sc.Buffer(make([]byte, 1<<20), 64<<20)
			for sc.Scan() {
				var m Msg
				if json.Unmarshal(sc.Bytes(), &m) == nil && m.T != "" {
					mm := m
					events <- evt{w: w, msg: &mm}
				}
			}
			err := w.cmd.Wait()
			w.exit = exitCodeOf(err)
			events <- evt{w: w, eof: true}
		}(w)
	}
	go func() { wg.Wait(); close(events) }()
	tick := time.NewTicker(2 * time.Second)
	memTick := time.NewTicker(200 * time.Millisecond)
	defer memTick.Stop()
	defer tick.Stop()
	live := len(ws)
	stopAll := func() {
		for _, w := range ws {
			if !w.done && w.cmd.Process != nil {
				w.cmd.Process.Signal(syscall.SIGTERM)
			}
		}
	}
	for live > 0 {
		select {
		case e, ok := <-events:
			if !ok {
				live = 0
				break
			}
			w := e.w
			if e.eof {
				w.done = true
				live--
				if w.exit != 0 && w.exit != 1 {
					stopAll() // a worker died: examine that run instead of burning the rest of the budget
				}
				continue
			}
			w.lastBeat = time.Now()
			switch e.msg.T {
			case "start":
				w.inflight = e.msg.Run
			case "viol":
				w.viols = append(w.viols, *e.msg)
				w.inflight = -1
				stopAll()
			case "harness":
				w.harness = append(w.harness, *e.msg)
			case "summary":
				w.summary = e.msg
				w.inflight = -1
			}
		case <-memTick.C:
			// a run whose memory grows without bound is a run that does not come back either (an
			// endless loop that keeps appending); it must not be allowed to take the machine down
			for _, w := range ws {
				if !w.done && !w.killed && w.cmd.Process != nil && rssBytes(w.cmd.Process.Pid) > memLimit(w.race) {
					w.killed, w.mem = true, true
					w.cmd.Process.Signal(syscall.SIGQUIT)
					stopAll()
					go func(w *workerState) {
						time.Sleep(10 * time.Second)
						if !w.done {
							w.cmd.Process.Kill()
						}
					}(w)
				}
			}
		case <-tick.C:
			for _, w := range ws {
				if !w.done && !w.killed && time.Since(w.lastBeat) > a.HangLimit {
					w.killed = true
					w.cmd.Process.Signal(syscall.SIGQUIT)
					stopAll()
					go func(w *workerState) {
						time.Sleep(10 * time.Second)
						if !w.done {
							w.cmd.Process.Kill()
						}
					}(w)
				}
			}
		}
	}
	for _, w := range ws {
		if w.summary != nil {
			s := w.summary
			agg.Runs += s.Runs
			if w.race {
				agg.RaceRuns += s.Runs
			}
			if w.instr {
				agg.InstrRuns += s.Runs
			}
			agg.Events += s.Events
			agg.WorkerSeconds += s.Seconds
			for k, v := range s.Stats {
				agg.Stats[k] += v
			}
			for _, g := range s.Sigs {
				agg.Sigs[g] = true
			}
			if len(agg.Samples) < 4 {
				agg.Samples = append(agg.Samples, s.Samples...)
			}
			for k, v := range s.Known {
				agg.Known[k] += v
				agg.KnownWhat[k] = s.KnownWhat[k]
			}
		}
		viols = append(viols, w.viols...)
		for _, h := range w.harness {
			trouble = append(trouble, fmt.Sprintf("worker %d run %d: %s", w.id, h.Run, h.Err))
		}
		switch {
		case w.killed:
			crashes = append(crashes, crashCase{seed: seed, run: w.inflight, race: w.race, instr: w.instr, hang: true, text: headTail(w.stderr.String(), 3000)})
		case w.exit != 0 && w.exit != 1 && len(w.harness) == 0:
			crashes = append(crashes, crashCase{seed: seed, run: w.inflight, race: w.race, instr: w.instr, exit: w.exit, text: headTail(w.stderr.String(), 3000)})
		case w.exit == 2 && len(w.harness) > 0:
			// already recorded as trouble
		}
	}
	return
}

func (a OrchArgs) binFor(race, instr bool) string {
	switch {
	case race && instr && a.YieldRaceBin != "":
		return a.YieldRaceBin
	case instr && !race && a.YieldBin != "":
		return a.YieldBin
	case race && a.RaceBin != "":
		return a.RaceBin
	}
	return a.Bin
}

func tail(s string, n int) string {
	if len(s) > n {
		return s[len(s)-n:]
	}
	return s
}

// headTail keeps the beginning (where Go prints "fatal error: ...", the race report or the
// panic message) and the end of a long output.
func headTail(s string, n int) string {
	if len(s) <= 2*n {
		return s
	}
	return s[:n] + "\n[... " + fmt.Sprint(len(s)-2*n) + " bytes omitted ...]\n" + s[len(s)-n:]
}

// confirmReplay replays a file in a fresh process; true when the violation reproduces.
func confirmReplay(a OrchArgs, path string, race bool) (bool, string) {
	instr := false
	if rf, err := ReadReplay(path); err == nil {
		race, instr = rf.Race, rf.Instr
	}
	// C15's subject includes Go's map iteration order, which no seam controls: a divergence that
	// depends on it shows in some fresh processes and not in others. Such a replay is attempted up to
	// six times; one reproduction is a reproduction (a replay reports only what it observes again on
	// the real code, so more attempts cannot create an alarm where the property holds).
	attempts := 1
	if a.Prop == "C15" {
		attempts = 6
	}
	var out []byte
	for i := 0; i < attempts; i++ {
		// (under the same time and memory guard as any single run: the tree under test may have turned
		// the replayed run into one that does not come back)
		exit, _, o := runOne(a, race, instr, []string{"replay", path}, 2*a.HangLimit)
		out = []byte(o)
		if exit == 1 {
			return true, tail(string(out), 3000)
		}
	}
	// C15 is about what earlier transforms of a process leave behind, and the runs a worker executed
	// before the failing one are such transforms: state the harness does not know of (and so cannot
	// put into a canonical condition between runs) makes a violation that shows only after them. The
	// replay then executes those runs first - the very sequence the worker executed, in a fresh
	// process - and the file says so. Nothing is reported unless the real code fails again.
	if a.Prop == "C15" {
		if rf, err := ReadReplay(path); err == nil && rf.History != nil && rf.Mode == "tape" {
			rf.NeedsHistory = true
			rf.Narrative = append(rf.Narrative, "NOT reproduced when this run is executed alone in a fresh process; reproduced after the runs the worker had executed before it (process_history): the replay executes them first")
			if _, err := WriteReplay(rf); err == nil {
				for i := 0; i < 2; i++ {
					exit, _, o := runOne(a, race, instr, []string{"replay", path}, a.Budget+2*a.HangLimit)
					out = []byte(o)
					if exit == 1 {
						return true, tail(string(out), 3000)
					}
				}
				rf.NeedsHistory = false
				WriteReplay(rf)
			}
		}
	}
	return false, tail(string(out), 3000)
}

// runOne executes a single run (by seed or by tape file) in a fresh process and reports how it ended.
func runOne(a OrchArgs, race, instr bool, args []string, limit time.Duration) (exit int, hung bool, output string) {
	bin := a.binFor(race, instr)
	cmd := exec.Command(bin, args...)
	cmd.Env = workerEnv(race, "")
	var buf bytes.Buffer
	cmd.Stdout = &buf
	cmd.Stderr = &buf
	if err := cmd.Start(); err != nil {
		return -1, false, err.Error()
	}
	done := make(chan error, 1)
	go func() { done <- cmd.Wait() }()
	deadline := time.After(limit)
	memTick := time.NewTicker(200 * time.Millisecond)
	defer memTick.Stop()
	for {
		select {
		case err := <-done:
			return exitCodeOf(err), false, headTail(buf.String(), 5000)
		case <-memTick.C:
			if rssBytes(cmd.Process.Pid) <= memLimit(race) {
				continue
			}
		case <-deadline:
		}
		// time or memory limit exceeded: the run does not come back
		cmd.Process.Signal(syscall.SIGQUIT)
		select {
		case <-done:
		case <-time.After(10 * time.Second):
			cmd.Process.Kill()
			<-done
		}
		return -1, true, headTail(buf.String(), 5000)
	}
}

// rssBytes is the resident set size of a process (0 if it cannot be read).
func rssBytes(pid int) int64 {
	b, err := ioutil.ReadFile(fmt.Sprintf("/proc/%d/statm", pid))
	if err != nil {
		return 0
	}
	f := strings.Fields(string(b))
	if len(f) < 2 {
		return 0
	}
	pages, _ := strconv.ParseInt(f[1], 10, 64)
	return pages * int64(os.Getpagesize())
}

// memLimit is the resident set size beyond which a worker is treated like a hung one
// (VERIF_MEM_MB; default 3 GB, 8 GB in the race build whose shadow memory multiplies everything).
func memLimit(race bool) int64 {
	mb := int64(3072)
	if race {
		mb = 8192
	}
	if v, err := strconv.ParseInt(os.Getenv("VERIF_MEM_MB"), 10, 64); err == nil && v > 0 {
		mb = v
	}
	return mb << 20
}

// crashFindingSignatures: open known findings that end a run abnormally, recognised by a frame
// in the goroutine dump.
var crashFindingSignatures = map[string]string{
	"xpath-boolean-target-hang": "xpath.(*booleanQuery).Select",
}

// crashClause maps an abnormal process end to the clause of the property that owns it.
func crashClause(prop string, cr crashCase, output string) string {
	switch {
	case cr.hang:
		switch prop {
		case "C03", "C09", "C16":
			if strings.Contains(output, "github.com/dop251/goja") && strings.Contains(output, "RunProgram") {
				return "" // user JavaScript that loops: excluded by C03
			}
			return prop + ".hang"
		}
	case cr.exit == 66:
		switch prop {
		case "C12", "C14", "C20":
			return prop + ".race"
		}
	default:
		if strings.Contains(output, "fatal error:") || strings.Contains(output, "stack overflow") {
			switch prop {
			case "C03", "C14", "C12", "C20":
				return prop + ".fatal"
			}
		}
	}
	return ""
}

func handleCrash(a OrchArgs, info *props.Info, cr crashCase) (violationLine, trouble string) {
	if cr.run < 0 {
		return "", fmt.Sprintf("worker ended abnormally (exit %d, hang=%v) outside any run:\n%s", cr.exit, cr.hang, cr.text)
	}
	dir := filepath.Join(Home(), "replays")
	os.MkdirAll(dir, 0o755)
	tapeFile := filepath.Join(dir, fmt.Sprintf(".tape-%s-%d-%d", a.Prop, cr.seed, cr.run))
	defer os.Remove(tapeFile)
	limit := 2 * a.HangLimit
	exit, hung, out := runOne(a, cr.race, cr.instr, []string{"one", "-prop", a.Prop, "-tier", a.Tier, "-seed", fmt.Sprint(cr.seed), "-run", fmt.Sprint(cr.run), "-tapeout", tapeFile}, limit)
	same := (cr.hang && hung) || (!cr.hang && !hung && exit == cr.exit)
	if cr.hang && !hung && exit != 0 && exit != 1 {
		// the worker was declared hung while the run was on its way to an unrecoverable runtime
		// error (e.g. unbounded recursion growing stack and heap): alone it reaches that error
		cr.hang, cr.exit, same = false, exit, true
	}
	if !same && !hung && exit == 1 {
		// Alone, the run does not take the process down but ends as an ordinary violation (what a
		// double release turns into - a cyclic tree that overflows the stack, or an unsound tree the
		// audit reports - depends, in race builds, on which pooled items sync.Pool drops at random).
		// It is reported as that violation, with the tape just recorded.
		clause, what := "", ""
		for _, l := range strings.Split(out, "\n") {
			if strings.HasPrefix(l, "violated clause ") {
				rest := strings.TrimPrefix(l, "violated clause ")
				if i := strings.Index(rest, ": "); i > 0 {
					clause, what = rest[:i], rest[i+2:]
				}
				break
			}
		}
		if clause != "" {
			vals, labels := readTapeFile(tapeFile)
			rf := &ReplayFile{Property: a.Prop, Clause: clause, What: what, Tier: a.Tier, Seed: cr.seed, Run: cr.run, Race: cr.race, Instr: cr.instr,
				Mode: "tape", Tape: vals, Labels: labels, Detail: []string{firstLines(out, 60)},
				Narrative: []string{"the run first ended abnormally in a worker (exit " + fmt.Sprint(cr.exit) + "); re-run alone it ends as this violation"}}
			path, err := WriteReplay(rf)
			if err != nil {
				return "", err.Error()
			}
			fmt.Printf("violation: clause=%s %s\n", clause, what)
			return fmt.Sprintf("VIOLATION property=%s replay=%s", a.Prop, path), ""
		}
	}
	if !same {
		return "", fmt.Sprintf("run %d (seed %d) ended abnormally in a worker (exit %d, hang=%v) but not when re-run alone (exit %d, hang=%v); worker stderr:\n%s", cr.run, cr.seed, cr.exit, cr.hang, exit, hung, cr.text)
	}
	clause := crashClause(a.Prop, cr, out)
	if clause != "" {
		// open known findings that show as a hang / crash are matched on the goroutine dump
		if open, text, err := LoadOpenFindings(a.Prop); err == nil {
			for slug, sig := range crashFindingSignatures {
				if open[slug] && strings.Contains(out, sig) {
					fmt.Printf("KNOWN-FINDING: property=%s finding=%s %s (run %d, seed %d)\n", a.Prop, slug, text[slug], cr.run, cr.seed)
					return "", ""
				}
			}
		}
	}
	if clause == "" {
		return "", fmt.Sprintf("run %d (seed %d) reproducibly ends abnormally (exit %d, hang=%v); this is outside what %s claims (see C03/C14) and is reported as harness trouble:\n%s", cr.run, cr.seed, exit, hung, a.Prop, out)
	}
	vals, labels := readTapeFile(tapeFile)
	rf := &ReplayFile{Property: a.Prop, Clause: clause, Tier: a.Tier, Seed: cr.seed, Run: cr.run, Race: cr.race, Instr: cr.instr,
		Mode: "crash", Tape: vals, Labels: labels, ExitCode: exit, Output: strings.Split(out, "\n")}
	if hung {
		rf.Mode = "hang"
		rf.What = "a call into the library does not return"
	} else if exit == 66 {
		rf.What = "data race reported by the race detector on a serialized, replayable schedule"
	} else {
		rf.What = "the process dies with an unrecoverable runtime error"
	}
	rf.Detail = []string{firstLines(out, 40)}
	path, err := WriteReplay(rf)
	if err != nil {
		return "", err.Error()
	}
	full := *rf
	if !hung {
		// minimise the tape with a small budget: every attempt is a fresh process
		min, st := shrinkCrash(a, rf, path, limit)
		if len(min) < len(rf.Tape) {
			rf.Tape, rf.Labels, rf.Shrink = min, nil, st
			if _, err := WriteReplay(rf); err != nil {
				return "", err.Error()
			}
		}
	}
	// confirm from the tape
	rc, _ := ReplayCrash(a.binFor(false, cr.instr), a.binFor(true, cr.instr), path, limit)
	if rc != 1 && len(rf.Tape) < len(full.Tape) {
		// the minimised tape does not show it again (a minimisation step was accepted on a
		// coincidence): fall back to the tape as recorded
		*rf = full
		if _, err := WriteReplay(rf); err != nil {
			return "", err.Error()
		}
		rc, _ = ReplayCrash(a.binFor(false, cr.instr), a.binFor(true, cr.instr), path, limit)
	}
	if rc != 1 {
		return "", fmt.Sprintf("crash of run %d reproduces by seed but not from its recorded tape %s", cr.run, path)
	}
	fmt.Printf("violation: clause=%s %s\n", clause, rf.What)
	return fmt.Sprintf("VIOLATION property=%s replay=%s", a.Prop, path), ""
}

func firstLines(s string, n int) string {
	l := strings.Split(s, "\n")
	if len(l) > n {
		l = l[:n]
	}
	return strings.Join(l, "\n")
}

func readTapeFile(p string) (vals []uint64, labels []string) {
	b, err := ioutil.ReadFile(p)
	if err != nil {
		return nil, nil
	}
	for _, line := range strings.Split(string(b), "\n") {
		var d tape.Draw
		if json.Unmarshal([]byte(line), &d) == nil && d.N > 0 {
			vals = append(vals, d.V)
			labels = append(labels, fmt.Sprintf("%s<%d=%d", d.L, d.N, d.V))
		}
	}
	return
}

// ReplayCrash replays a crash/hang-mode file in a child process. Returns 1 when the child
// ends the same abnormal way, 0 when it does not, 2 on trouble.
//
// In the race build the runtime makes sync.Pool drop a quarter of the items put into it, chosen at
// random: a race that needs a pooled object to be handed from one task to another is then a
// property of the schedule on the tape AND of those drops, and one replay shows it with a
// probability below one. Such a file is therefore replayed up to raceReplayAttempts times; one
// race report is a reproduction (a report is never produced by anything but a race).
func ReplayCrash(bin, raceBin, path string, limit time.Duration) (int, string) {
	rf, err := ReadReplay(path)
	if err == nil && rf.Race && rf.Mode == "crash" && rf.ExitCode == 66 {
		var rc int
		var out string
		for i := 0; i < raceReplayAttempts; i++ {
			if rc, out = replayCrashOnce(bin, raceBin, path, limit); rc != 0 {
				break
			}
		}
		return rc, out
	}
	return replayCrashOnce(bin, raceBin, path, limit)
}

const raceReplayAttempts = 6

func replayCrashOnce(bin, raceBin, path string, limit time.Duration) (int, string) {
	rf, err := ReadReplay(path)
	if err != nil {
		return 2, err.Error()
	}
	a := OrchArgs{Bin: bin, RaceBin: raceBin}
	if rf.Race && raceBin == "" {
		return 2, "replay needs the race build"
	}
	exit, hung, out := runOne(a, rf.Race, false, []string{"replay-inproc", path}, limit)
	if rf.Mode == "hang" {
		if hung {
			return 1, out
		}
		return 0, out
	}
	if !hung && exit == rf.ExitCode {
		return 1, out
	}
	return 0, out
}

// shrinkCrash minimises the tape of a run that takes the process down: shortest crashing
// prefix (an exhausted tape serves zeros), then zeroing blocks. Each attempt replays a
// candidate file in a child process and keeps it only if the child ends the same way.
func shrinkCrash(a OrchArgs, rf *ReplayFile, path string, limit time.Duration) ([]uint64, ShrinkStats) {
	st := ShrinkStats{FromDraws: len(rf.Tape)}
	start := time.Now()
	tmp := path + ".cand"
	defer os.Remove(tmp)
	try := func(vals []uint64) bool {
		if st.Attempts >= 40 || time.Since(start) > 90*time.Second {
			return false
		}
		st.Attempts++
		c := *rf
		c.Tape, c.Labels = vals, nil
		b, _ := json.Marshal(&c)
		if ioutil.WriteFile(tmp, b, 0o644) != nil {
			return false
		}
		// (a candidate gets a fraction of the time a run may take before it counts as hung: a shortened
		// tape that turns the crash into something slow is no use as a minimised crash, and forty
		// candidates at the full limit would take hours)
		candLimit := limit
		if candLimit > 20*time.Second {
			candLimit = 20 * time.Second
		}
		if left := 90*time.Second - time.Since(start); left < candLimit {
			candLimit = left
		}
		if candLimit <= 0 {
			return false
		}
		rc, _ := replayCrashOnce(a.binFor(false, rf.Instr), a.binFor(true, rf.Instr), tmp, candLimit)
		if rc == 1 {
			st.Accepted++
			return true
		}
		return false
	}
	cur := append([]uint64(nil), rf.Tape...)
	// shortest crashing prefix by bisection
	lo, hi := 0, len(cur)
	for lo < hi && st.Attempts < 14 {
		mid := (lo + hi) / 2
		if try(cur[:mid]) {
			hi = mid
		} else {
			lo = mid + 1
		}
	}
	cur = cur[:hi]
	for blk := len(cur) / 4; blk >= 1 && st.Attempts < 40; blk /= 2 {
		for i := 0; i+blk <= len(cur) && st.Attempts < 40; i += blk {
			cand := append([]uint64(nil), cur...)
			nz := false
			for j := i; j < i+blk; j++ {
				if cand[j] != 0 {
					nz = true
				}
				cand[j] = 0
			}
			if nz && try(cand) {
				cur = cand
			}
		}
		if blk == 1 {
			break
		}
	}
	for len(cur) > 0 && cur[len(cur)-1] == 0 {
		cur = cur[:len(cur)-1]
	}
	st.ToDraws = len(cur)
	st.Seconds = time.Since(start).Seconds()
	return cur, st
}
