//go:build race
// +build race

package ctl

func init() { IsRaceBuild = true }
