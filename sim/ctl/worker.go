package ctl

import (
	"bufio"
	"encoding/json"
	"fmt"
	"os"
	"os/signal"
	"runtime"
	"sync/atomic"
	"syscall"
	"time"

	"verif/sim/props"
	simrun "verif/sim/run"
	"verif/sim/sched"
	"verif/sim/tape"
)

// Msg is one line of the worker -> orchestrator protocol.
type Msg struct {
	T      string `json:"t"` // start | viol | known | summary | harness
	Run    int    `json:"run,omitempty"`
	Seed   uint64 `json:"seed,omitempty"`
	Path   string `json:"path,omitempty"`
	Clause string `json:"clause,omitempty"`
	What   string `json:"what,omitempty"`
	Slug   string `json:"slug,omitempty"`
	Err    string `json:"err,omitempty"`

	Runs      int               `json:"runs,omitempty"`
	Events    int64             `json:"events,omitempty"`
	Stats     map[string]int64  `json:"stats,omitempty"`
	Sigs      []uint64          `json:"sigs,omitempty"`
	Samples   []interface{}     `json:"samples,omitempty"`
	EvHashes  map[string]string `json:"evh,omitempty"`
	Seconds   float64           `json:"seconds,omitempty"`
	Known     map[string]int    `json:"known,omitempty"`
	KnownWhat map[string]string `json:"known_what,omitempty"`
}

// WorkerArgs configures a worker process.
type WorkerArgs struct {
	Prop    string
	Tier    string
	Seed    uint64
	Start   int
	Stride  int
	MaxRuns int
	Budget  time.Duration
	EvLog   bool // emit per-run event hashes (determinism self-test)
}

// Worker executes runs Start, Start+Stride, ... and streams protocol lines to stdout.
func Worker(a WorkerArgs) int {
	runtime.GOMAXPROCS(1)
	out := bufio.NewWriter(os.Stdout)
	emit := func(m Msg) {
		b, _ := json.Marshal(m)
		out.Write(b)
		out.WriteByte('\n')
		out.Flush()
	}
	lastBeat := time.Now()
	simrun.Beat = func() {
		if time.Since(lastBeat) > 5*time.Second {
			lastBeat = time.Now()
			emit(Msg{T: "beat"})
		}
	}
	open, _, err := LoadOpenFindings(a.Prop)
	if err != nil {
		emit(Msg{T: "harness", Err: "known findings: " + err.Error()})
		return 2
	}
	if props.Registry[a.Prop] == nil {
		emit(Msg{T: "harness", Err: "unknown property " + a.Prop})
		return 2
	}
	var stop int32
	sigc := make(chan os.Signal, 1)
	signal.Notify(sigc, syscall.SIGTERM)
	go func() { <-sigc; atomic.StoreInt32(&stop, 1) }()
	start := time.Now()
	sum := Msg{T: "summary", Stats: map[string]int64{}, Known: map[string]int{}, KnownWhat: map[string]string{}}
	if a.EvLog {
		sum.EvHashes = map[string]string{}
	}
	sigs := map[uint64]bool{}
	code := 0
	for run := a.Start; sum.Runs < a.MaxRuns; run += a.Stride {
		if time.Since(start) > a.Budget || atomic.LoadInt32(&stop) != 0 {
			break
		}
		emit(Msg{T: "start", Run: run, Seed: a.Seed})
		res := Execute(a.Prop, a.Tier, a.Seed, run, nil, open, nil)
		if res.HarnessErr != "" {
			emit(Msg{T: "harness", Run: run, Err: res.HarnessErr})
			return 2
		}
		sum.Runs++
		sum.Events += res.Ctx.Events
		for k, v := range res.Ctx.Stats {
			sum.Stats[k] += v
		}
		if res.Ctx.Nontrivial {
			sigs[res.Ctx.Sig()] = true
		}
		if len(sum.Samples) < 2 && len(res.Ctx.Sample) > 0 {
			res.Ctx.Sample["run"] = run
			sum.Samples = append(sum.Samples, res.Ctx.Sample)
		}
		if a.EvLog {
			sum.EvHashes[fmt.Sprint(run)] = fmt.Sprintf("%016x/%d", res.Ctx.EvHash(), len(res.Values))
		}
		fresh, known := NewViolations(res.Violations)
		for _, k := range known {
			sum.Known[k.Finding]++
			sum.KnownWhat[k.Finding] = k.What
		}
		if len(fresh) > 0 {
			v := fresh[0]
			path, err := ShrinkAndWrite(a.Prop, a.Tier, a.Seed, run, v, res, open, &HistorySpec{Start: a.Start, Stride: a.Stride})
			if err != nil {
				emit(Msg{T: "harness", Run: run, Err: "writing replay: " + err.Error()})
				return 2
			}
			emit(Msg{T: "viol", Run: run, Seed: a.Seed, Path: path, Clause: v.Clause, What: v.What})
			code = 1
			break
		}
	}
	for s := range sigs {
		sum.Sigs = append(sum.Sigs, s)
	}
	sum.Seconds = time.Since(start).Seconds()
	emit(sum)
	return code
}

// ShrinkAndWrite minimises the failing run and writes its replay file.
func ShrinkAndWrite(prop, tier string, seed uint64, run int, v props.Violation, res RunResult, open map[string]bool, hist *HistorySpec) (string, error) {
	clause := v.Clause
	test := func(vals []uint64) (bool, []uint64, []tape.Span) {
		r := Execute(prop, tier, seed, run, vals, open, nil)
		if r.HarnessErr != "" {
			return false, nil, nil
		}
		fresh, _ := NewViolations(r.Violations)
		for _, x := range fresh {
			if x.Clause == clause {
				return true, r.Values, r.Spans
			}
		}
		return false, nil, nil
	}
	budgetN, budgetT := 600, 40*time.Second
	if tier == "thorough" {
		budgetN, budgetT = 3000, 180*time.Second
	}
	min, st := Shrink(res.Values, res.Spans, test, budgetN, budgetT)
	// final run on the minimised tape to get its narrative
	fin := Execute(prop, tier, seed, run, min, open, nil)
	fresh, _ := NewViolations(fin.Violations)
	var fv *props.Violation
	for i := range fresh {
		if fresh[i].Clause == clause {
			fv = &fresh[i]
			break
		}
	}
	if fv == nil {
		// minimisation result does not reproduce in-process (should not happen): fall back to the original tape
		min = res.Values
		fin = res
		fv = &v
	}
	rf := &ReplayFile{
		Property: prop, Clause: clause, What: fv.What, Tier: tier, Seed: seed, Run: run, Race: IsRaceBuild, Instr: sched.Instrumented,
		Mode: "tape", Tape: fin.Values, Labels: labelsOf(fin.Draws), Detail: fv.Detail, Narrative: fin.Ctx.Notes, Shrink: st,
	}
	if hist != nil && hist.Stride > 0 && run > hist.Start {
		rf.History = hist
	}
	return WriteReplay(rf)
}

// Replay re-executes a replay file in this process. Exit status: 1 if the recorded clause
// fails again, 0 if the run passes, 2 on harness trouble.
func Replay(path string, verbose bool) int {
	runtime.GOMAXPROCS(1)
	rf, err := ReadReplay(path)
	if err != nil {
		fmt.Fprintln(os.Stderr, "replay:", err)
		return 2
	}
	open, _, err := LoadOpenFindings(rf.Property)
	if err != nil {
		fmt.Fprintln(os.Stderr, "replay:", err)
		return 2
	}
	fmt.Printf("replaying %s: property=%s clause=%s seed=%d run=%d draws=%d\n", path, rf.Property, rf.Clause, rf.Seed, rf.Run, len(rf.Tape))
	vals := rf.Tape
	if rf.NeedsHistory && rf.History != nil && rf.History.Stride > 0 {
		// the violation depends on what earlier runs of the worker process left behind: they are
		// executed first, from the seed, and then the run itself, from the seed as well (the
		// minimised tape in the file was minimised in the state those runs had left)
		n := 0
		for r := rf.History.Start; r < rf.Run; r += rf.History.Stride {
			h := Execute(rf.Property, rf.Tier, rf.Seed, r, nil, open, nil)
			if h.HarnessErr != "" {
				fmt.Fprintln(os.Stderr, h.HarnessErr)
				return 2
			}
			n++
		}
		fmt.Printf("process history: runs %d, %d, ... (%d runs of seed %d) executed first in this process\n", rf.History.Start, rf.History.Start+rf.History.Stride, n, rf.Seed)
		vals = nil
	}
	res := Execute(rf.Property, rf.Tier, rf.Seed, rf.Run, vals, open, nil)
	if res.HarnessErr != "" {
		fmt.Fprintln(os.Stderr, res.HarnessErr)
		return 2
	}
	if verbose {
		for _, n := range res.Ctx.Notes {
			fmt.Println("  | " + n)
		}
	}
	fresh, known := NewViolations(res.Violations)
	for _, k := range known {
		fmt.Printf("KNOWN-FINDING: property=%s %s\n", rf.Property, k.What)
	}
	for _, v := range fresh {
		fmt.Printf("violated clause %s: %s\n", v.Clause, v.What)
		for _, d := range v.Detail {
			fmt.Println("    " + d)
		}
	}
	for _, v := range fresh {
		if v.Clause == rf.Clause {
			fmt.Printf("REPRODUCED property=%s clause=%s\n", rf.Property, rf.Clause)
			return 1
		}
	}
	if len(fresh) > 0 {
		fmt.Printf("REPRODUCED-DIFFERENT-CLAUSE property=%s\n", rf.Property)
		return 1
	}
	for _, k := range known {
		if k.Clause == rf.Clause {
			// the recorded failure happens again and is listed as an open known finding
			fmt.Printf("REPRODUCED-KNOWN-FINDING property=%s clause=%s finding=%s\n", rf.Property, rf.Clause, k.Finding)
			return 0
		}
	}
	fmt.Println("NOT-REPRODUCED")
	return 0
}
