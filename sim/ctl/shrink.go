package ctl

import (
	"sort"
	"time"

	"verif/sim/tape"
)

// ShrinkStats reports what minimisation did.
type ShrinkStats struct {
	Attempts  int     `json:"attempts"`
	Accepted  int     `json:"accepted"`
	FromDraws int     `json:"from_draws"`
	ToDraws   int     `json:"to_draws"`
	Seconds   float64 `json:"seconds"`
}

// Tester runs a candidate tape and reports whether the same clause still fails, together with
// the normalised tape actually consumed and its spans.
type Tester func(vals []uint64) (fails bool, consumed []uint64, spans []tape.Span)

// Shrink minimises a failing tape: delete spans (largest first), delete single draws, zero
// draws, lower draws by bisection. A candidate is kept only when the same clause still fails.
func Shrink(vals []uint64, spans []tape.Span, test Tester, maxAttempts int, maxTime time.Duration) ([]uint64, ShrinkStats) {
	st := ShrinkStats{FromDraws: len(vals)}
	start := time.Now()
	cur := append([]uint64(nil), vals...)
	curSpans := spans
	out := func() bool { return st.Attempts >= maxAttempts || time.Since(start) > maxTime }
	try := func(cand []uint64) bool {
		if out() {
			return false
		}
		st.Attempts++
		ok, consumed, sp := test(cand)
		if !ok {
			return false
		}
		// trim trailing zeros: an exhausted tape serves zeros anyway
		for len(consumed) > 0 && consumed[len(consumed)-1] == 0 {
			consumed = consumed[:len(consumed)-1]
		}
		if !shortlexLess(consumed, cur) {
			return false
		}
		cur = consumed
		curSpans = sp
		st.Accepted++
		return true
	}
	for pass := 0; pass < 6 && !out(); pass++ {
		progress := false
		// 1. delete spans, largest first
		sp := append([]tape.Span(nil), curSpans...)
		sort.Slice(sp, func(i, j int) bool { return sp[i].End-sp[i].Start > sp[j].End-sp[j].Start })
		for _, s := range sp {
			if out() {
				break
			}
			if s.End <= s.Start || s.End > len(cur) {
				continue
			}
			cand := append(append([]uint64(nil), cur[:s.Start]...), cur[s.End:]...)
			if try(cand) {
				progress = true
				break // spans are stale now; restart the pass
			}
		}
		if progress {
			continue
		}
		// 2. zero blocks of draws, then single draws
		for blk := 8; blk >= 1 && !out(); blk /= 2 {
			for i := 0; i+blk <= len(cur) && !out(); i += blk {
				allZero := true
				for j := i; j < i+blk; j++ {
					if cur[j] != 0 {
						allZero = false
					}
				}
				if allZero {
					continue
				}
				cand := append([]uint64(nil), cur...)
				for j := i; j < i+blk; j++ {
					cand[j] = 0
				}
				if try(cand) {
					progress = true
				}
			}
		}
		// 3. delete single draws / pairs
		for i := 0; i < len(cur) && !out(); i++ {
			cand := append(append([]uint64(nil), cur[:i]...), cur[i+1:]...)
			if try(cand) {
				progress = true
				i--
			}
		}
		// 4. lower draws by bisection
		for i := 0; i < len(cur) && !out(); i++ {
			lo, hi := uint64(0), cur[i]
			for lo < hi && !out() {
				mid := lo + (hi-lo)/2
				cand := append([]uint64(nil), cur...)
				if i >= len(cand) {
					break
				}
				cand[i] = mid
				if try(cand) {
					progress = true
					if i >= len(cur) {
						break
					}
					hi = cur[i]
					if hi > mid {
						hi = mid
					}
				} else {
					lo = mid + 1
				}
			}
		}
		if !progress {
			break
		}
	}
	st.ToDraws = len(cur)
	st.Seconds = time.Since(start).Seconds()
	return cur, st
}

func shortlexLess(a, b []uint64) bool {
	if len(a) != len(b) {
		return len(a) < len(b)
	}
	for i := range a {
		if a[i] != b[i] {
			return a[i] < b[i]
		}
	}
	return false
}
