// Command instr writes an instrumented copy of the repository under test: a call of
// verifyield.Y() — a scheduler hand-off point of the simulator — is inserted before every
// statement of the library's non-test Go files (go/ast rewriting, in a scratch copy only;
// /repo is never touched). The simulator built against that copy can pre-empt a task between
// any two statements, not only at reader calls and API boundaries.
//
//	instr <repo> <dst>
package main

import (
	"bytes"
	"fmt"
	"go/ast"
	"go/format"
	"go/parser"
	"go/token"
	"io/ioutil"
	"os"
	"path/filepath"
	"strings"
)

const yieldPkg = "github.com/jf-tech/omniparser/verifyield"

const yieldSrc = `// Package verifyield exists only in the instrumented scratch copy built by /verif.
package verifyield

// Hook is set by the simulator's scheduler.
var Hook func()

// LockHook / UnlockHook tell the scheduler that the running task entered / is about to leave a
// critical section (X.Lock(), X.RLock(), X.Do(...)): a task is never parked while it holds a
// lock, otherwise the task released next could block inside the Go runtime on that lock and the
// simulation would deadlock.
var LockHook, UnlockHook func()

// Y is a soft yield point.
func Y() {
	if h := Hook; h != nil {
		h()
	}
}

// HookS is set by the simulator's scheduler.
var HookS func(site int)

// YS is a soft yield point in a file that touches state shared between goroutines (the file
// mentions sync., atomic. or caches.): the scheduler can spend a run's hand-offs there alone, and
// can make two tasks meet at one such point (site: its number) and go on from there in step.
func YS(site int) {
	if h := HookS; h != nil {
		h(site)
	}
}

// Locked is called right after a lock was taken.
func Locked() {
	if h := LockHook; h != nil {
		h()
	}
}

// Unlocked is called right before a lock is released.
func Unlocked() {
	if h := UnlockHook; h != nil {
		h()
	}
}
`

// the one package below the samples the simulator uses: the sample custom file format.
const keptSample = "extensions/omniv21/samples/customfileformats/jsonlog/jsonlogformat"

func skipDir(rel string) bool {
	if rel == keptSample || strings.HasPrefix(keptSample, rel+"/") {
		return false
	}
	for _, p := range []string{".git", "cli", "doc", "sponsors", "extensions/omniv21/samples", "validation/gen"} {
		if rel == p || strings.HasPrefix(rel, p+"/") {
			return true
		}
	}
	return false
}

// instrumented reports whether the statements of this file get yield points.
func instrumented(rel string) bool {
	if !strings.HasSuffix(rel, ".go") || strings.HasSuffix(rel, "_test.go") {
		return false
	}
	if strings.HasPrefix(rel, "extensions/omniv21/validation/") || strings.HasPrefix(rel, "validation/") {
		return false // generated JSON-schema strings and their loader
	}
	return true
}

// yieldName is the yield function used for the file being rewritten (Y or YS).
var yieldName = "Y"

// siteNo numbers the YS yield points of the whole copy (files are visited in lexical order).
var siteNo = 0

func yieldStmt() ast.Stmt {
	call := &ast.CallExpr{Fun: &ast.SelectorExpr{X: ast.NewIdent("verifyield"), Sel: ast.NewIdent(yieldName)}}
	if yieldName == "YS" {
		siteNo++
		call.Args = []ast.Expr{&ast.BasicLit{Kind: token.INT, Value: fmt.Sprint(siteNo)}}
	}
	return &ast.ExprStmt{X: call}
}

// touchesSharedState: the file uses synchronisation primitives, atomics or the process-wide caches.
func touchesSharedState(src []byte) bool {
	for _, m := range []string{"sync.", "atomic.", "caches."} {
		if bytes.Contains(src, []byte(m)) {
			return true
		}
	}
	return false
}

func hookStmt(name string) ast.Stmt {
	return &ast.ExprStmt{X: &ast.CallExpr{Fun: &ast.SelectorExpr{X: ast.NewIdent("verifyield"), Sel: ast.NewIdent(name)}}}
}

// methodCall returns the method name of a statement of the form X.M(...) ("" otherwise).
func methodCall(e ast.Expr) (string, int) {
	if c, ok := e.(*ast.CallExpr); ok {
		if sel, ok := c.Fun.(*ast.SelectorExpr); ok {
			return sel.Sel.Name, len(c.Args)
		}
	}
	return "", 0
}

func rewriteList(list []ast.Stmt) []ast.Stmt {
	out := make([]ast.Stmt, 0, 2*len(list))
	for _, s := range list {
		switch x := s.(type) {
		case *ast.ExprStmt:
			switch m, nargs := methodCall(x.X); {
			case (m == "Lock" || m == "RLock") && nargs == 0:
				out = append(out, yieldStmt(), s, hookStmt("Locked"))
				continue
			case (m == "Unlock" || m == "RUnlock") && nargs == 0:
				out = append(out, hookStmt("Unlocked"), s)
				continue
			case m == "Do" && nargs == 1:
				// sync.Once.Do runs its argument under the Once's own lock
				out = append(out, yieldStmt(), hookStmt("Locked"), s, hookStmt("Unlocked"))
				continue
			}
		case *ast.DeferStmt:
			if m, nargs := methodCall(x.Call); (m == "Unlock" || m == "RUnlock") && nargs == 0 {
				body := &ast.BlockStmt{List: []ast.Stmt{hookStmt("Unlocked"), &ast.ExprStmt{X: x.Call}}}
				out = append(out, yieldStmt(), &ast.DeferStmt{Call: &ast.CallExpr{Fun: &ast.FuncLit{Type: &ast.FuncType{Params: &ast.FieldList{}}, Body: body}}})
				continue
			}
		}
		out = append(out, yieldStmt(), s)
	}
	return out
}

// skipFuncLits: the visitor does not descend into this call (its function literals stay as they are).
func skipFuncLits(*ast.CallExpr) bool { return false }

func instrument(src []byte, name string) ([]byte, int, error) {
	fset := token.NewFileSet()
	f, err := parser.ParseFile(fset, name, src, parser.ParseComments)
	if err != nil {
		return nil, 0, err
	}
	n := 0
	yieldName = "Y"
	if touchesSharedState(src) {
		yieldName = "YS"
	}
	clauseBlocks := map[*ast.BlockStmt]bool{} // bodies of switch/select: their lists hold clauses, not statements
	ast.Inspect(f, func(node ast.Node) bool {
		switch x := node.(type) {
		case *ast.CallExpr:
			// a comparison function handed to package sort runs a number of times that depends on the
			// order the elements happen to be in (often that of a map iteration): yield points in there
			// would make the number of hand-off points of a run vary. They are left out.
			if sel, ok := x.Fun.(*ast.SelectorExpr); ok {
				if id, ok := sel.X.(*ast.Ident); ok && id.Name == "sort" {
					for _, a := range x.Args {
						if _, ok := a.(*ast.FuncLit); ok {
							return skipFuncLits(x)
						}
					}
				}
			}
		case *ast.SwitchStmt:
			clauseBlocks[x.Body] = true
		case *ast.TypeSwitchStmt:
			clauseBlocks[x.Body] = true
		case *ast.SelectStmt:
			clauseBlocks[x.Body] = true
		case *ast.BlockStmt:
			if clauseBlocks[x] {
				return true
			}
			n += len(x.List)
			x.List = rewriteList(x.List)
		case *ast.CaseClause:
			n += len(x.Body)
			x.Body = rewriteList(x.Body)
		case *ast.CommClause:
			n += len(x.Body)
			x.Body = rewriteList(x.Body)
		}
		return true
	})
	if n == 0 {
		return src, 0, nil
	}
	// add the import
	imp := &ast.ImportSpec{Path: &ast.BasicLit{Kind: token.STRING, Value: fmt.Sprintf("%q", yieldPkg)}}
	decl := &ast.GenDecl{Tok: token.IMPORT, Specs: []ast.Spec{imp}}
	f.Decls = append([]ast.Decl{decl}, f.Decls...)
	f.Imports = append(f.Imports, imp)
	var buf bytes.Buffer
	// comments are dropped: inserted statements have no positions and would displace them
	f.Comments = nil
	stripDocs(f)
	if err := format.Node(&buf, fset, f); err != nil {
		return nil, 0, err
	}
	// keep build constraints, which are comments
	var head []byte
	for _, line := range strings.Split(string(src), "\n") {
		t := strings.TrimSpace(line)
		if strings.HasPrefix(t, "//go:build") || strings.HasPrefix(t, "// +build") {
			head = append(head, (line + "\n")...)
		}
		if strings.HasPrefix(t, "package ") {
			break
		}
	}
	if len(head) > 0 {
		head = append(head, '\n')
	}
	return append(head, buf.Bytes()...), n, nil
}

func stripDocs(f *ast.File) {
	f.Doc = nil
	ast.Inspect(f, func(n ast.Node) bool {
		switch x := n.(type) {
		case *ast.FuncDecl:
			x.Doc = nil
		case *ast.GenDecl:
			x.Doc = nil
		case *ast.Field:
			x.Doc, x.Comment = nil, nil
		case *ast.ValueSpec:
			x.Doc, x.Comment = nil, nil
		case *ast.TypeSpec:
			x.Doc, x.Comment = nil, nil
		case *ast.ImportSpec:
			x.Doc, x.Comment = nil, nil
		}
		return true
	})
}

func main() {
	if len(os.Args) != 3 {
		fmt.Fprintln(os.Stderr, "usage: instr <repo> <dst>")
		os.Exit(2)
	}
	repo, dst := os.Args[1], os.Args[2]
	files, points := 0, 0
	err := filepath.Walk(repo, func(p string, info os.FileInfo, err error) error {
		if err != nil {
			return err
		}
		rel, _ := filepath.Rel(repo, p)
		if rel == "." {
			return nil
		}
		if info.IsDir() {
			if skipDir(rel) {
				return filepath.SkipDir
			}
			return os.MkdirAll(filepath.Join(dst, rel), 0o755)
		}
		if strings.HasSuffix(rel, "_test.go") {
			return nil
		}
		if !(strings.HasSuffix(rel, ".go") || rel == "go.mod" || rel == "go.sum" || strings.HasSuffix(rel, ".json")) {
			return nil
		}
		b, err := ioutil.ReadFile(p)
		if err != nil {
			return err
		}
		if instrumented(rel) {
			nb, n, err := instrument(b, rel)
			if err != nil {
				return fmt.Errorf("%s: %v", rel, err)
			}
			b = nb
			if n > 0 {
				files++
				points += n
			}
		}
		return ioutil.WriteFile(filepath.Join(dst, rel), b, 0o644)
	})
	if err == nil {
		err = os.MkdirAll(filepath.Join(dst, "verifyield"), 0o755)
	}
	if err == nil {
		err = ioutil.WriteFile(filepath.Join(dst, "verifyield", "yield.go"), []byte(yieldSrc), 0o644)
	}
	if err != nil {
		fmt.Fprintln(os.Stderr, "instr:", err)
		os.Exit(2)
	}
	fmt.Printf("instr: %d files instrumented, %d yield points\n", files, points)
}
