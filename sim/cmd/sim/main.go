// Command sim is the deterministic simulator for the omniparser properties.
//
//	sim orch   -prop C09 -tier quick            orchestrate a check (workers, evidence, replay confirmation)
//	sim worker ...                              (internal) execute a stride of runs
//	sim one    -prop -tier -seed -run [-tapeout f] [-v]   execute one run by seed
//	sim replay <file> [-v]                      replay a failure file (exit 1 = reproduced)
//	sim replay-inproc <file>                    (internal) replay a crash/hang file in this process
package main

import (
	"encoding/json"
	"flag"
	"fmt"
	"io/ioutil"
	"os"
	"runtime"
	"runtime/debug"
	"strconv"
	"time"

	"verif/sim/ctl"
	"verif/sim/props"
	"verif/sim/tape"
)

func envSeed() uint64 {
	if s := os.Getenv("VERIF_SEED"); s != "" {
		if v, err := strconv.ParseUint(s, 10, 64); err == nil {
			return v
		}
		if v, err := strconv.ParseInt(s, 10, 64); err == nil {
			return uint64(v)
		}
	}
	return 20261004
}

func main() {
	if len(os.Args) < 2 {
		fmt.Fprintln(os.Stderr, "usage: sim orch|worker|one|replay ...")
		os.Exit(2)
	}
	cmd := os.Args[1]
	// unbounded recursion in the system under test must end in Go's fatal "stack overflow"
	// within a second, not after growing a 1 GB stack
	debug.SetMaxStack(16 << 20)
	// The collector is switched off while a run is in progress (sync.Pool determinism); a run that
	// produces gigabytes of garbage (an xpath evaluation the library aborts only after a million
	// steps, times records, times declarations) must still not run into the orchestrator's memory
	// guard, which is there for unbounded growth: above this limit the collector runs regardless.
	debug.SetMemoryLimit(1 << 30)
	fs := flag.NewFlagSet(cmd, flag.ExitOnError)
	prop := fs.String("prop", "", "property id")
	tier := fs.String("tier", "quick", "quick|thorough")
	seed := fs.Uint64("seed", envSeed(), "seed")
	start := fs.Int("start", 0, "first run index")
	stride := fs.Int("stride", 1, "run index stride")
	budget := fs.Float64("budget", 0, "seconds of simulation (0 = tier default)")
	maxruns := fs.Int("maxruns", 0, "max runs per worker")
	workers := fs.Int("workers", 0, "worker processes")
	run := fs.Int("run", 0, "run index")
	tapeout := fs.String("tapeout", "", "append every draw to this file as it is made")
	verbose := fs.Bool("v", false, "print the narrative")
	evlog := fs.Bool("evlog", false, "emit per-run event hashes")
	bin := fs.String("bin", "", "plain binary")
	racebin := fs.String("racebin", "", "race binary")
	yieldbin := fs.String("yieldbin", "", "instrumented binary (yield point before every statement)")
	yieldracebin := fs.String("yieldracebin", "", "instrumented race binary")
	hang := fs.Float64("hang", 0, "seconds without progress before a worker is declared hung")

	switch cmd {
	case "orch":
		fs.Parse(os.Args[2:])
		b := time.Duration(*budget * float64(time.Second))
		if b == 0 {
			if s := os.Getenv("VERIF_BUDGET_S"); s != "" {
				if v, err := strconv.ParseFloat(s, 64); err == nil {
					b = time.Duration(v * float64(time.Second))
				}
			}
		}
		if b == 0 {
			b = 40 * time.Second
			switch *prop {
			case "C03", "C12", "C14", "C16":
				// these two checks consist of several scenario families each; the quick tier gives them a minute
				b = 60 * time.Second
			}
			if *tier == "thorough" {
				b = 18 * time.Minute
			}
		}
		w := *workers
		if w == 0 {
			if v, err := strconv.Atoi(os.Getenv("VERIF_WORKERS")); err == nil && v > 0 {
				w = v
			}
		}
		if w == 0 {
			w = runtime.NumCPU()
			if w > 16 {
				w = 16
			}
		}
		h := time.Duration(*hang * float64(time.Second))
		if h == 0 {
			if v, err := strconv.ParseFloat(os.Getenv("VERIF_HANG_S"), 64); err == nil && v > 0 {
				h = time.Duration(v * float64(time.Second))
			}
		}
		if h == 0 {
			h = 120 * time.Second
		}
		self, _ := os.Executable()
		if *bin == "" {
			*bin = self
		}
		os.Exit(ctl.Orchestrate(ctl.OrchArgs{Prop: *prop, Tier: *tier, Seed: *seed, Budget: b, Workers: w,
			Bin: *bin, RaceBin: *racebin, YieldBin: *yieldbin, YieldRaceBin: *yieldracebin, HangLimit: h, MaxRuns: *maxruns}))
	case "worker":
		fs.Parse(os.Args[2:])
		mr := *maxruns
		if mr <= 0 {
			mr = 1 << 30
		}
		os.Exit(ctl.Worker(ctl.WorkerArgs{Prop: *prop, Tier: *tier, Seed: *seed, Start: *start, Stride: *stride,
			MaxRuns: mr, Budget: time.Duration(*budget * float64(time.Second)), EvLog: *evlog}))
	case "one":
		fs.Parse(os.Args[2:])
		os.Exit(one(*prop, *tier, *seed, *run, nil, *tapeout, *verbose))
	case "replay":
		if len(os.Args) < 3 {
			fmt.Fprintln(os.Stderr, "usage: sim replay <file> [-v]")
			os.Exit(2)
		}
		path := os.Args[2]
		fs.Parse(os.Args[3:])
		rf, err := ctl.ReadReplay(path)
		if err != nil {
			fmt.Fprintln(os.Stderr, err)
			os.Exit(2)
		}
		if rf.Mode == "crash" || rf.Mode == "hang" {
			self, _ := os.Executable()
			if *bin == "" {
				*bin = self
			}
			if *racebin == "" {
				*racebin = os.Getenv("VERIF_RACE_BIN")
			}
			rc, out := ctl.ReplayCrash(*bin, *racebin, path, 240*time.Second)
			fmt.Println(out)
			if rc == 1 {
				fmt.Printf("REPRODUCED property=%s clause=%s (%s)\n", rf.Property, rf.Clause, rf.Mode)
			}
			os.Exit(rc)
		}
		os.Exit(ctl.Replay(path, *verbose))
	case "c15child":
		b, err := ioutil.ReadFile(os.Args[2])
		if err != nil {
			fmt.Fprintln(os.Stderr, err)
			os.Exit(2)
		}
		var vals []uint64
		if err := json.Unmarshal(b, &vals); err != nil {
			fmt.Fprintln(os.Stderr, err)
			os.Exit(2)
		}
		if n, err := strconv.Atoi(os.Getenv("VERIF_GOMAXPROCS")); err == nil && n > 0 {
			runtime.GOMAXPROCS(n)
		}
		fmt.Println(props.C15Child(vals))
		os.Exit(0)
	case "replay-inproc":
		rf, err := ctl.ReadReplay(os.Args[2])
		if err != nil {
			fmt.Fprintln(os.Stderr, err)
			os.Exit(2)
		}
		os.Exit(one(rf.Property, rf.Tier, rf.Seed, rf.Run, rf.Tape, "", true))
	default:
		fmt.Fprintln(os.Stderr, "unknown command", cmd)
		os.Exit(2)
	}
}

func one(prop, tier string, seed uint64, run int, vals []uint64, tapeout string, verbose bool) int {
	runtime.GOMAXPROCS(1)
	open, _, err := ctl.LoadOpenFindings(prop)
	if err != nil {
		fmt.Fprintln(os.Stderr, err)
		return 2
	}
	var sink func(tape.Draw)
	if tapeout != "" {
		f, err := os.OpenFile(tapeout, os.O_CREATE|os.O_TRUNC|os.O_WRONLY, 0o644)
		if err != nil {
			fmt.Fprintln(os.Stderr, err)
			return 2
		}
		defer f.Close()
		sink = func(d tape.Draw) {
			b, _ := json.Marshal(d)
			f.Write(append(b, '\n'))
		}
	}
	if vals == nil && os.Getenv("VERIF_FORCE_REPLAY_EMPTY") != "" {
		vals = []uint64{}
	}
	res := ctl.Execute(prop, tier, seed, run, vals, open, sink)
	if res.HarnessErr != "" {
		fmt.Fprintln(os.Stderr, res.HarnessErr)
		return 2
	}
	if verbose {
		for _, n := range res.Ctx.Notes {
			fmt.Println("  | " + n)
		}
	}
	fmt.Printf("run %d seed %d: %d draws, evh=%016x, events=%d\n", run, seed, len(res.Values), res.Ctx.EvHash(), res.Ctx.Events)
	fresh, known := ctl.NewViolations(res.Violations)
	for _, k := range known {
		fmt.Printf("KNOWN-FINDING: property=%s finding=%s %s\n", prop, k.Finding, k.What)
	}
	for _, v := range fresh {
		fmt.Printf("violated clause %s: %s\n", v.Clause, v.What)
		for _, d := range v.Detail {
			fmt.Println("    " + d)
		}
	}
	if len(fresh) > 0 {
		return 1
	}
	return 0
}
