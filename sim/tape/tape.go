// Package tape is the single source of every choice a simulated run makes.
//
// Generation mode: draws come from a xoshiro256** PRNG seeded from (VERIF_SEED, property,
// run index) and are recorded. Replay mode: draws are served from a recorded list (value
// modulo bound; an exhausted tape serves 0, the simplest choice). A run is a pure function
// of the tape, the harness code and the /repo tree. Nothing here reads a clock.
package tape

import (
	"fmt"
)

// Draw is one recorded choice.
type Draw struct {
	L string `json:"l"` // label
	N uint64 `json:"n"` // bound (value is in [0,N))
	V uint64 `json:"v"` // value
}

// Span groups the draws [Start,End) made between Begin and End.
type Span struct {
	Label      string
	Start, End int
}

type Tape struct {
	replay bool
	in     []uint64 // replay values
	pos    int
	s      [4]uint64
	draws  []Draw
	spans  []Span
	open   []int // indices into spans of the currently open spans
	sink   func(Draw)
	over   int // draws served past the end of a replay tape
}

func splitmix(x *uint64) uint64 {
	*x += 0x9e3779b97f4a7c15
	z := *x
	z = (z ^ (z >> 30)) * 0xbf58476d1ce4e5b9
	z = (z ^ (z >> 27)) * 0x94d049bb133111eb
	return z ^ (z >> 31)
}

// Mix derives a sub-seed from a seed and some strings/integers.
func Mix(seed uint64, parts ...interface{}) uint64 {
	h := seed ^ 0x51ed270b37a4c1e9
	for _, p := range parts {
		s := fmt.Sprint(p)
		for i := 0; i < len(s); i++ {
			h ^= uint64(s[i])
			h *= 0x100000001b3
		}
		h ^= 0xff
		h *= 0x100000001b3
	}
	x := h
	return splitmix(&x)
}

// NewGen returns a generating tape.
func NewGen(seed uint64) *Tape {
	t := &Tape{}
	x := seed
	for i := range t.s {
		t.s[i] = splitmix(&x)
	}
	return t
}

// NewReplay returns a tape that serves the given values.
func NewReplay(vals []uint64) *Tape {
	return &Tape{replay: true, in: vals}
}

// SetSink makes every draw be reported immediately (used to persist the tape of a run that
// may take the process down).
func (t *Tape) SetSink(f func(Draw)) { t.sink = f }

func rotl(x uint64, k uint) uint64 { return (x << k) | (x >> (64 - k)) }

func (t *Tape) next() uint64 {
	s := &t.s
	r := rotl(s[1]*5, 7) * 9
	x := s[1] << 17
	s[2] ^= s[0]
	s[3] ^= s[1]
	s[1] ^= s[2]
	s[0] ^= s[3]
	s[2] ^= x
	s[3] = rotl(s[3], 45)
	return r
}

// U returns a value in [0,n). n must be >= 1.
func (t *Tape) U(label string, n uint64) uint64 {
	if n == 0 {
		panic("tape: bound 0 at " + label)
	}
	var v uint64
	if t.replay {
		if t.pos < len(t.in) {
			v = t.in[t.pos] % n
			t.pos++
		} else {
			t.over++
			v = 0
		}
	} else {
		if n == 1 {
			v = 0
		} else {
			v = t.next() % n
		}
	}
	d := Draw{L: label, N: n, V: v}
	t.draws = append(t.draws, d)
	if t.sink != nil {
		t.sink(d)
	}
	return v
}

// Intn returns a value in [0,n).
func (t *Tape) Intn(label string, n int) int {
	if n <= 0 {
		panic(fmt.Sprintf("tape: Intn(%d) at %s", n, label))
	}
	return int(t.U(label, uint64(n)))
}

// Range returns a value in [lo,hi] (inclusive); lo is the simplest.
func (t *Tape) Range(label string, lo, hi int) int {
	if hi < lo {
		hi = lo
	}
	return lo + t.Intn(label, hi-lo+1)
}

// Chance is true with probability num/den; false is the simplest.
func (t *Tape) Chance(label string, num, den int) bool {
	if num <= 0 {
		// still draw, so that the tape layout does not depend on the probability
		t.Intn(label, den)
		return false
	}
	return t.Intn(label, den) >= den-num
}

// Bool is a fair coin; false is simplest.
func (t *Tape) Bool(label string) bool { return t.Intn(label, 2) == 1 }

// Weighted picks an index with the given weights; index 0 is the simplest, so list simple
// alternatives first.
func (t *Tape) Weighted(label string, w ...int) int {
	sum := 0
	for _, x := range w {
		sum += x
	}
	v := t.Intn(label, sum)
	for i, x := range w {
		if v < x {
			return i
		}
		v -= x
	}
	return len(w) - 1
}

// Pick returns one of the strings.
func (t *Tape) Pick(label string, opts ...string) string {
	return opts[t.Intn(label, len(opts))]
}

// Begin opens a span.
func (t *Tape) Begin(label string) {
	t.spans = append(t.spans, Span{Label: label, Start: len(t.draws), End: -1})
	t.open = append(t.open, len(t.spans)-1)
}

// End closes the innermost open span.
func (t *Tape) End() {
	if len(t.open) == 0 {
		panic("tape: End without Begin")
	}
	i := t.open[len(t.open)-1]
	t.open = t.open[:len(t.open)-1]
	t.spans[i].End = len(t.draws)
}

// Repeat calls f for a tape-chosen number of elements in [min,max]. Each optional element
// starts with a "more" draw inside its own span, so that deleting the span deletes the
// element. pNum/pDen is the continuation probability.
func (t *Tape) Repeat(label string, min, max, pNum, pDen int, f func(i int)) int {
	i := 0
	for ; i < max; i++ {
		t.Begin(label)
		if i >= min {
			if !t.Chance(label+".more", pNum, pDen) {
				t.End()
				break
			}
		}
		f(i)
		t.End()
	}
	return i
}

// Draws returns the draws made so far.
func (t *Tape) Draws() []Draw { return t.draws }

// Values returns the values of the draws made so far.
func (t *Tape) Values() []uint64 {
	out := make([]uint64, len(t.draws))
	for i, d := range t.draws {
		out[i] = d.V
	}
	return out
}

// Spans returns the closed spans recorded so far.
func (t *Tape) Spans() []Span {
	out := make([]Span, 0, len(t.spans))
	for _, s := range t.spans {
		if s.End >= 0 {
			out = append(out, s)
		}
	}
	return out
}

// Overrun is the number of draws served after a replay tape was exhausted.
func (t *Tape) Overrun() int { return t.over }

// Len is the number of draws made.
func (t *Tape) Len() int { return len(t.draws) }
