module verif/sim

go 1.16

require (
	github.com/google/uuid v1.1.2
	github.com/jf-tech/go-corelib v0.0.14
	github.com/jf-tech/omniparser v0.0.0
)

replace github.com/jf-tech/omniparser => /repo
