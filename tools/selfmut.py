#!/usr/bin/env python3
"""Developer tool: sensitivity self-test. Applies small deliberate property-breaking edits to /repo
(one at a time, always reverted), runs the named check with a small budget and reports whether it
raised a VIOLATION. Usage: tools/selfmut.py [name-substring ...]"""
import subprocess, sys, os, time
REPO='/repo'
M=[
 # (name, check, file, old, new)
 ('c12-remove-middle-skip-prev','C12','idr/node.go',"\t\t\tn.NextSibling.PrevSibling = n.PrevSibling\n","\t\t\t_ = n.PrevSibling\n"),
 ('c12-remove-first-skip-prev','C12','idr/node.go',"\t\t\tn.Parent.FirstChild = n.NextSibling\n\t\t\tn.NextSibling.PrevSibling = nil\n","\t\t\tn.Parent.FirstChild = n.NextSibling\n"),
 ('c12-remove-last-skip-next','C12','idr/node.go',"\t\t\tn.PrevSibling.NextSibling = nil\n","\t\t\t_ = nil\n"),
 ('c12-recycle-no-reset','C12','idr/node.go',"\tn.reset()\n\tnodePool.Put(n)\n","\tnodePool.Put(n)\n"),
 ('c12-put-twice','C12','idr/node.go',"\tn.reset()\n\tnodePool.Put(n)\n","\tn.reset()\n\tnodePool.Put(n)\n\tnodePool.Put(n)\n"),
 ('c12-nonatomic-id','C12','idr/node.go',"\treturn atomic.AddInt64(&nodeID, 1)\n","\t_ = atomic.LoadInt64\n\tnodeID++\n\treturn nodeID\n"),
 ('c14-nonatomic-id','C14','idr/node.go',"\treturn atomic.AddInt64(&nodeID, 1)\n","\t_ = atomic.LoadInt64\n\tnodeID++\n\treturn nodeID\n"),
 ('c01-no-latch','C01','transform.go',"\tif o.lastErr != nil && !errs.IsErrTransformFailed(o.lastErr) {\n\t\treturn nil, o.lastErr\n\t}\n","\t_ = errs.IsErrTransformFailed\n"),
 ('c01-latch-only-eof','C01','transform.go',"\tif o.lastErr != nil && !errs.IsErrTransformFailed(o.lastErr) {","\tif o.lastErr != nil && o.lastErr.Error() == \"EOF\" {"),
 ('c01-keep-transformed','C01','transform.go',"\t\ttransformed = nil\n","\t\t_ = transformed\n"),
 ('c01-rawrecord-ignores-lasterr','C01','transform.go',"\tif o.lastErr != nil {\n\t\treturn nil, o.lastErr\n\t}\n\tif o.lastRawRecord == nil {","\tif o.lastRawRecord == nil {"),
 ('c01-stale-rawrecord','C01','transform.go',"\t} else {\n\t\to.lastRawRecord = nil\n\t}\n","\t}\n"),
 ('c16-csv2-invalidcsv-continuable','C16','extensions/omniv21/fileformat/flatfile/csv/reader.go',"\treturn !IsErrInvalidCSV(err) && err != io.EOF\n","\treturn err != io.EOF\n"),
 ('c16-edi-ignore-scanner-err','C16','extensions/omniv21/fileformat/edi/reader2.go',"\terr := r.scanner.Err()\n\tif err != nil {","\terr := r.scanner.Err()\n\tif err != nil && false {"),
 ('c16-json-err-to-eof','C16','extensions/omniv21/fileformat/json/reader.go',"\tif err != nil {\n\t\treturn nil, ErrNodeReadingFailed(r.fmtErrStr(err.Error()))\n\t}","\tif err != nil {\n\t\treturn nil, io.EOF\n\t}"),
 ('c16-fl2-swallow-more-err','C16','extensions/omniv21/fileformat/flatfile/fixedlength/reader.go',"\tif err := r.readLine(); err != nil && err != io.EOF {\n\t\treturn false, err\n\t}\n\treturn len(r.linesBuf) > 0, nil","\tif err := r.readLine(); err != nil && err != io.EOF {\n\t\treturn false, nil\n\t}\n\treturn len(r.linesBuf) > 0, nil"),
 ('c09-fl2-no-copy','C09','extensions/omniv21/fileformat/flatfile/fixedlength/reader.go',"\tif linesBufLen > 0 && !r.linesBuf[linesBufLen-1].copied {","\tif linesBufLen > 0 && !r.linesBuf[linesBufLen-1].copied && false {"),
 ('c09-csv2-no-record-copy','C09','extensions/omniv21/fileformat/flatfile/csv/reader.go',"\tr.records = append(r.records, record...)\n","\tr.records = append(r.records[:len(r.records):len(r.records)], record...)\n"),
 ('c13-cache-key-no-node','C13','extensions/omniv21/transform/parse.go','\t\tcacheKey = strconv.FormatInt(n.ID, 16) + "/" + decl.hash\n','\t\tcacheKey = strconv.FormatInt(n.ID&0, 16) + "/" + decl.hash\n'),
 ('c13-revert-f1-fix','C13','extensions/omniv21/transform/parse.go','\t\t\tcacheKey += "/."\n','\t\t\tcacheKey += ""\n'),
 ('c13-dynamic-xpath-cached','C13','extensions/omniv21/transform/parse.go',"\tif dynamic {\n\t\treturn idr.DisableXPathCache\n\t}","\tif dynamic && false {\n\t\treturn idr.DisableXPathCache\n\t}"),
 ('c10-no-release','C10','extensions/omniv21/ingester.go',"\t\tg.reader.Release(g.rawRecord.node)\n","\t\t_ = g.reader\n"),
 ('c10-no-new-id-on-reset','C10','idr/node.go',"\tn.ID = newNodeID()\n","\tif n.ID == 0 {\n\t\tn.ID = newNodeID()\n\t}\n"),
 ('c17-keep-filtered-hier','C17','extensions/omniv21/fileformat/flatfile/hierarchyReader.go',"\t\t\tidr.RemoveAndReleaseTree(cur.recNode)\n\t\t\tcur.recNode = nil\n","\t\t\tcur.recNode = nil\n"),
 ('c17-keep-filtered-xml','C17','idr/xmlreader.go',"\tRemoveAndReleaseTree(sp.stream)\n\tsp.stream = nil\n\treturn nil\n}","\tsp.stream = nil\n\treturn nil\n}"),
 ('c17-no-release-ingester','C17','extensions/omniv21/ingester.go',"\t\tg.reader.Release(g.rawRecord.node)\n","\t\t_ = g.reader\n"),
 ('c20-no-arg-delete','C20','extensions/omniv21/customfuncs/javascript.go',"\t\t\t\t_ = vm.GlobalObject().Delete(arg)\n","\t\t\t\t_ = arg\n"),
 ('c20-accept-nan','C20','extensions/omniv21/customfuncs/javascript.go',"\tcase goja.IsNaN(v), goja.IsInfinity(v), goja.IsNull(v), goja.IsUndefined(v):","\tcase goja.IsInfinity(v), goja.IsNull(v), goja.IsUndefined(v):"),
 ('c03-no-arity-check','C03','extensions/omniv21/transform/invokeCustomFunc.go',"\tif (fnType.IsVariadic() && numArgs < numIn-1) || (!fnType.IsVariadic() && numArgs != numIn) {","\tif false {"),
 ('c03-json-nil-cursor','C03','idr/jsonreader.go',"\t\tif sp.cur == nil {","\t\tif sp.cur == nil && false {"),
 ('c15-checksum-uses-id','C15','extensions/omniv21/ingester.go',"\thash, _ := customfuncs.UUIDv3(nil, idr.JSONify2(rr.node))","\thash, _ := customfuncs.UUIDv3(nil, idr.JSONify2(rr.node)+string(rune(rr.node.ID%7+65)))"),
 ('c20r-nil-arg-as-empty-string','C20','extensions/omniv21/transform/invokeCustomFunc.go',"\t\t\targVals = append(argVals, reflect.Zero(argType))\n","\t\t\tif argType.Kind() == reflect.Interface {\n\t\t\t\targVals = append(argVals, reflect.ValueOf(\"\"))\n\t\t\t} else {\n\t\t\t\targVals = append(argVals, reflect.Zero(argType))\n\t\t\t}\n"),
 ('c20r-node-of-wrong-cursor','C20','extensions/omniv21/transform/invokeCustomFunc.go',"\t\targVals = append(argVals, reflect.ValueOf(n))\n","\t\tfor n.Parent != nil && n.Parent.Parent != nil {\n\t\t\tn = n.Parent\n\t\t}\n\t\targVals = append(argVals, reflect.ValueOf(n))\n"),
]
def sh(cmd, **kw):
    return subprocess.run(cmd, shell=True, stdout=subprocess.PIPE, stderr=subprocess.STDOUT, text=True, **kw)
def main():
    sel=sys.argv[1:]
    budget=os.environ.get('SELFMUT_BUDGET','20')
    assert sh('git -C %s status --porcelain'%REPO).stdout.strip()=='' , 'repo dirty'
    results=[]
    for name,check,f,old,new in M:
        if sel and not any(s in name for s in sel): continue
        p=os.path.join(REPO,f); src=open(p).read()
        if old not in src:
            results.append((name,check,'PATTERN-NOT-FOUND')); continue
        open(p,'w').write(src.replace(old,new,1))
        try:
            b=sh('cd %s && GOFLAGS=-mod=mod GOPROXY=off GOSUMDB=off GOTOOLCHAIN=local go build ./...'%REPO)
            if b.returncode!=0:
                results.append((name,check,'MUTANT-DOES-NOT-BUILD: '+b.stdout[-200:])); continue
            t0=time.time()
            r=sh('cd /verif && VERIF_BUDGET_S=%s ./check %s quick'%(budget,check))
            viol=[l for l in r.stdout.splitlines() if l.startswith('VIOLATION')]
            known=[l for l in r.stdout.splitlines() if l.startswith('violation:')]
            results.append((name,check,('CAUGHT' if viol else 'MISSED')+' exit=%d %.0fs %s'%(r.returncode,time.time()-t0,(known[0][:150] if known else ''))))
        finally:
            sh('git -C %s checkout -- .'%REPO)
        print(results[-1],flush=True)
    print('\n==== summary')
    for r in results: print(r)
main()
