#!/usr/bin/env python3
"""Developer tool: (re)create findings/<slug>-<prop>.json, one replay file per open known finding.
For each open line of KNOWN_FINDINGS.txt the check is run with a scratch home whose findings file
lacks that line, so that the finding is reported (and minimised) like any violation; the first
replay file that, replayed against the real home, prints REPRODUCED-KNOWN-FINDING for the slug is kept.
Usage: tools/mkfindings.py [budget_s [slug]]   (uses the binaries in .build: run ./check build first;
with a slug only that finding's file is made again, the others are kept)"""
import os, re, subprocess, sys, tempfile, shutil, glob
HERE = os.path.dirname(os.path.dirname(os.path.abspath(__file__)))
budget = sys.argv[1] if len(sys.argv) > 1 else '60'
lines = open(HERE + '/KNOWN_FINDINGS.txt').read().split('\n')
opens = [(m.group(1), m.group(2)) for l in lines for m in [re.match(r'open: property=(\S+) finding=(\S+)', l)] if m]
os.makedirs(HERE + '/findings', exist_ok=True)
only = sys.argv[2] if len(sys.argv) > 2 else None
if only:
    opens = [(p, s) for p, s in opens if s == only]
else:
    for f in glob.glob(HERE + '/findings/*.json'): os.remove(f)
for prop, slug in opens:
    tmp = tempfile.mkdtemp(prefix='mkfind-', dir=HERE + '/.build')
    try:
        keep = [l for l in lines if not l.startswith('open: property=%s finding=%s ' % (prop, slug))]
        open(tmp + '/KNOWN_FINDINGS.txt', 'w').write('\n'.join(keep))
        os.makedirs(tmp + '/evidence')
        env = dict(os.environ, VERIF_HOME=tmp, VERIF_BUDGET_S=budget)
        b = HERE + '/.build/'
        subprocess.run([b + 'sim', 'orch', '-prop', prop, '-tier', 'quick', '-bin', b + 'sim', '-racebin', '', '-yieldbin', '', '-yieldracebin', ''],
                       env=env, stdout=subprocess.PIPE, stderr=subprocess.STDOUT, text=True)
        got = None
        for rf in sorted(glob.glob(tmp + '/replays/*.json'), key=os.path.getsize):
            r = subprocess.run([HERE + '/check', '--replay', rf], stdout=subprocess.PIPE, stderr=subprocess.STDOUT, text=True)
            if 'REPRODUCED-KNOWN-FINDING' in r.stdout and 'finding=' + slug in r.stdout:
                got = rf; break
        if got:
            shutil.copy(got, '%s/findings/%s-%s.json' % (HERE, slug, prop))
            print('ok  ', prop, slug, os.path.getsize(got), 'bytes')
        else:
            print('NONE', prop, slug)
    finally:
        shutil.rmtree(tmp, ignore_errors=True)
