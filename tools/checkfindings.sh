#!/bin/bash
# Developer tool: replays every file of findings/ (one per open known finding); each must print
# REPRODUCED-KNOWN-FINDING. After a generator change stale ones are made again with
# tools/mkfindings.py <budget_s> <slug>.
cd "$(dirname "$0")/.."
rc=0
for f in findings/*.json; do
  r=$(./check --replay "$f" 2>&1 | grep -E "REPRODUCED|NOT-REPRODUCED" | tail -1 | cut -c1-100)
  echo "$(basename "$f"): $r"
  case "$r" in REPRODUCED-KNOWN-FINDING*) ;; *) rc=1;; esac
done
exit $rc
