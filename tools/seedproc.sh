#!/bin/bash
# Developer tool: tools/seedproc.sh <seed_dir> <demo_dir_rel> <prop> [budget_s]
#   confirms the seeded change in <seed_dir> (patch.diff, demo_test.go) in a scratch worktree, then runs ./check <prop> quick against it
set -u
sd="$1"; ddir="$2"; prop="$3"; budget="${4:-40}"
here="$(cd "$(dirname "$0")" && pwd)"
"$here/seedtest.sh" confirm "$sd/patch.diff" "$sd/demo_test.go" "$ddir" 2>&1 | cut -c1-200
echo "=== check $prop"
"$here/seedtest.sh" check "$sd/patch.diff" "$prop" "$budget"
