#!/bin/bash
# Developer tool: confirm a seeded change (mutant) and run the checks against it.
#   tools/seedtest.sh confirm <diff> <demo_file> <demo_dir_rel> [go test args...]   -> confirms in a scratch worktree
#   tools/seedtest.sh check <diff> <prop> [budget_s]                               -> applies to /repo, runs ./check <prop> quick, reverts
set -u
export GOFLAGS=-mod=mod GOPROXY=off GOSUMDB=off GOTOOLCHAIN=local CGO_ENABLED=1
cmd="$1"; shift
case "$cmd" in
 confirm)
  diff="$(realpath "$1")"; demo="$(realpath "$2")"; ddir="$3"; shift 3
  [ -f "$diff" ] && [ -f "$demo" ] || { echo "confirm: patch or demonstration file not found: $1 $2"; exit 2; }
  wt=/tmp/confirm-$$
  git -C /repo worktree add --detach "$wt" HEAD >/dev/null 2>&1 || { echo "worktree failed"; exit 2; }
  trap 'git -C /repo worktree remove --force "$wt" >/dev/null 2>&1' EXIT
  cd "$wt"
  cp "$demo" "$ddir/zz_demo_test.go" || { echo "confirm: cannot place the demonstration in $ddir"; exit 2; }
  echo "--- demo WITHOUT the change (must pass)"
  (cd "$ddir" && go test -vet=off -count=1 -run . "$@" . 2>&1 | tail -3)
  rm -f "$ddir/zz_demo_test.go"
  git apply "$diff" || { echo "APPLY FAILED"; exit 2; }
  echo "--- full suite WITH the change (must pass)"
  go build ./... && go test -vet=off -count=1 ./... 2>&1 | grep -v "^ok\|no test files" | tail -5
  echo "suite exit: ${PIPESTATUS[0]}"
  cp "$demo" "$ddir/zz_demo_test.go"
  echo "--- demo WITH the change (must fail)"
  (cd "$ddir" && go test -vet=off -count=1 -run . "$@" . 2>&1 | tail -6)
  ;;
 check)
  diff="$1"; prop="$2"; budget="${3:-30}"
  [ -z "$(git -C /repo status --porcelain)" ] || { echo "/repo dirty"; exit 2; }
  git -C /repo apply "$diff" || { echo "APPLY FAILED"; exit 2; }
  (cd /verif && VERIF_EVIDENCE_DIR=/verif/.build/evidence-of-other-trees VERIF_BUDGET_S=$budget ./check "$prop" quick 2>&1 | grep -v "^KNOWN-FINDING" | cut -c1-330 | tail -6)
  git -C /repo checkout -- . ; git -C /repo clean -fdq ; git -C /repo status --short
  ;;
esac
