#!/usr/bin/env python3
"""tools/seedstore.py <seed-id> <property> <diff> <demo> <demo_dir> <needs> <caught_by csv> <missed_by csv> [notes.md]
Stores a confirmed seeded change under /verif/seeded/<seed-id>/ (patch.diff, demo, meta.json)."""
import sys, os, shutil, json
sid, prop, diff, demo, ddir, needs, caught, missed = sys.argv[1:9]
notes = sys.argv[9] if len(sys.argv) > 9 else None
d = '/verif/seeded/' + sid
os.makedirs(d, exist_ok=True)
shutil.copy(diff, d + '/patch.diff')
shutil.copy(demo, d + '/' + os.path.basename(demo))
if notes: shutil.copy(notes, d + '/notes.md')
meta = {
  "breaks_property": prop,
  "needs_to_manifest": needs,
  "demo": {"file": os.path.basename(demo), "place_in": ddir, "run": "go test -vet=off -count=1 -run . . (fails with patch.diff applied, passes without)"},
  "confirmed": "applied in a scratch worktree of /repo HEAD: go build ./... ok, full suite go test -vet=off -count=1 ./... passes, demo fails with the change and passes without (tools/seedtest.sh confirm)",
  "checks_run": "git -C /repo apply patch.diff; ./check <id> quick (VERIF_BUDGET_S 20-30); git -C /repo checkout -- .  (tools/seedtest.sh check)",
  "caught_by": [x for x in caught.split(',') if x],
  "missed_by": [x for x in missed.split(',') if x],
}
json.dump(meta, open(d + '/meta.json', 'w'), indent=1)
print('stored', d)
