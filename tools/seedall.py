#!/usr/bin/env python3
"""Developer tool: re-run every stored seeded change against the check(s) that are recorded to catch it.
Usage: tools/seedall.py [budget_s] [id-substring ...]. Applies patch to /repo, runs ./check <prop> quick, reverts."""
import json, os, subprocess, sys, glob, time
HERE = os.path.dirname(os.path.dirname(os.path.abspath(__file__)))   # the /verif (or snapshot) directory
REPO = os.environ.get('VERIF_REPO', '/repo')
budget = sys.argv[1] if len(sys.argv) > 1 and sys.argv[1].isdigit() else '30'
sel = [a for a in sys.argv[1:] if not a.isdigit()]
def sh(c): return subprocess.run(c, shell=True, stdout=subprocess.PIPE, stderr=subprocess.STDOUT, text=True)
assert sh('git -C %s status --porcelain' % REPO).stdout.strip() == '', REPO + ' dirty'
res = []
for d in sorted(glob.glob(HERE + '/seeded/*/')):
    sid = os.path.basename(d.rstrip('/'))
    if not os.path.exists(d + 'meta.json'): continue   # e.g. seeded/retired/
    if sel and not any(s in sid for s in sel): continue
    meta = json.load(open(d + 'meta.json'))
    for prop in (meta['caught_by'] or meta['missed_by'])[:1]:
        r = sh('git -C %s apply %spatch.diff' % (REPO, d))
        if r.returncode != 0:
            res.append((sid, prop, 'PATCH DOES NOT APPLY')); continue
        t0 = time.time()
        try:
            r = sh('cd %s && VERIF_EVIDENCE_DIR=%s/.build/evidence-of-other-trees VERIF_BUDGET_S=%s ./check %s quick' % (HERE, HERE, budget, prop))
        finally:
            sh('git -C %s checkout -- . && git -C %s clean -fdq' % (REPO, REPO))
        caught = any(l.startswith('VIOLATION') for l in r.stdout.splitlines())
        res.append((sid, prop, ('CAUGHT' if caught else 'MISSED') + ' exit=%d %.0fs' % (r.returncode, time.time() - t0)))
        print(res[-1], flush=True)
        if not caught and r.returncode != 0:
            # not a clean miss: keep what the check said (build trouble, harness trouble)
            print('    | ' + '\n    | '.join(l[:300] for l in r.stdout.splitlines()[-12:] if not l.startswith('KNOWN-FINDING')), flush=True)
print('\n== summary: %d caught, %d not' % (sum('CAUGHT' in r[2] for r in res), sum('CAUGHT' not in r[2] for r in res)))
for r in res:
    if 'CAUGHT' not in r[2]: print(r)
