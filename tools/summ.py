#!/usr/bin/env python3
# developer helper: summarise replay files by clause / first detail lines
import json,glob,sys,collections
pat=sys.argv[1] if len(sys.argv)>1 else '*'
g=collections.defaultdict(list)
for f in sorted(glob.glob('/verif/replays/%s.json'%pat)):
    r=json.load(open(f))
    key=(r['clause'], (r.get('what') or '')[:160])
    g[key].append(f)
for k,v in g.items():
    print(len(v), k[0], '|', k[1])
    print('     e.g.', v[0])
